"""
Sigma-F (DESIGN.md C14): candidate *faulty* calls, generated mechanically from
the public mutators x the ways an argument or precondition can be wrong.  No
prediction of which calls fail is needed: a candidate is a fault transition iff
the real call raises.
"""
from mc.ops import FILES, DIRS, join

LONG_J = 'j' * 65


def _first(tree, kind):
    if not tree:
        return None
    for p in sorted(tree):
        if p != '/' and tree[p]['kind'] == kind:
            return p
    return None


def candidates(cfg, model):
    rr = cfg.get('rr')
    J = bool(cfg.get('joliet'))
    U = bool(cfg.get('udf'))
    out = []

    def add(_call, **kw):
        out.append([_call, kw])

    def rrn(n):
        return {'rr_name': n} if rr else {}

    iso_file = _first(model.iso, 'file')
    iso_dir = _first(model.iso, 'dir')
    jol_file = _first(model.jol, 'file')
    jol_dir = _first(model.jol, 'dir')
    udf_file = _first(model.udf, 'file')
    udf_dir = _first(model.udf, 'dir')
    new_iso = '/NEW.;1'
    new_j = '/new'
    new_u = '/new'

    # ---- add_fp -----------------------------------------------------------
    add('add_fp', content='c1')                                               # no path at all
    add('add_fp', content='c1', iso_path='/new.;1', **rrn('n'))               # illegal characters (level < 4)
    add('add_fp', content='c1', iso_path='/TOOLONGNAME.;1', **rrn('n'))       # 8.3 at level 1
    add('add_fp', content='c1', iso_path='/N.;0', **rrn('n'))                 # version 0
    add('add_fp', content='c1', iso_path='/N.;X', **rrn('n'))                 # non-numeric version
    add('add_fp', content='c1', iso_path='/NOPE/N.;1', **rrn('n'))            # missing parent
    add('add_fp', content='c1', iso_path='N.;1', **rrn('n'))                  # relative path
    if iso_file:
        add('add_fp', content='c1', iso_path=iso_file, **rrn('n'))            # duplicate ISO name
        add('add_fp', content='c1', iso_path=iso_file + '/N.;1', **rrn('n'))  # parent is a file
    if iso_dir:
        add('add_fp', content='c1', iso_path=iso_dir, **rrn('n'))             # name of a directory
    if rr:
        add('add_fp', content='c1', iso_path=new_iso)                         # rr_name missing
        add('add_fp', content='c1', iso_path=new_iso, rr_name='a/b')          # rr_name not relative
    else:
        add('add_fp', content='c1', iso_path=new_iso, file_mode=0o100644)     # mode on non-RR
    # second namespace wrong while the first is valid
    add('add_fp', content='c1', iso_path=new_iso, joliet_path='/nope/new', **rrn('n'))
    add('add_fp', content='c1', iso_path=new_iso, joliet_path='/' + LONG_J, **rrn('n'))
    if jol_file:
        add('add_fp', content='c1', iso_path=new_iso, joliet_path=jol_file, **rrn('n'))
    if jol_dir:
        add('add_fp', content='c1', iso_path=new_iso, joliet_path=jol_dir, **rrn('n'))
    # third namespace wrong while the first two are valid
    jkw = {'joliet_path': new_j} if J else {}
    add('add_fp', content='c1', iso_path=new_iso, udf_path='/nope/new', **dict(jkw, **rrn('n')))
    if udf_file:
        add('add_fp', content='c1', iso_path=new_iso, udf_path=udf_file, **dict(jkw, **rrn('n')))
    if udf_dir:
        add('add_fp', content='c1', iso_path=new_iso, udf_path=udf_dir, **dict(jkw, **rrn('n')))
    add('add_fp', content='c1', joliet_path=new_j, udf_path='/nope/new')
    add('add_fp', content='c1', udf_path='/' + 'u' * 300)

    # ---- add_directory ----------------------------------------------------
    add('add_directory')
    add('add_directory', iso_path='/newdir', **rrn('n'))
    add('add_directory', iso_path='/TOOLONGDIRNAME', **rrn('n'))
    add('add_directory', iso_path='/NOPE/NEWDIR', **rrn('n'))
    add('add_directory', iso_path='/' + 'D' * 208, **rrn('n'))
    if iso_dir:
        add('add_directory', iso_path=iso_dir, **rrn('n'))
    if iso_file:
        add('add_directory', iso_path=iso_file, **rrn('n'))
    if rr:
        add('add_directory', iso_path='/NEWDIR')
    else:
        add('add_directory', iso_path='/NEWDIR', file_mode=0o040755)
    add('add_directory', iso_path='/NEWDIR', joliet_path='/nope/newdir', **rrn('n'))
    if jol_dir:
        add('add_directory', iso_path='/NEWDIR', joliet_path=jol_dir, **rrn('n'))
    if jol_file:
        add('add_directory', iso_path='/NEWDIR', joliet_path=jol_file, **rrn('n'))
    add('add_directory', iso_path='/NEWDIR', udf_path='/nope/newdir', **dict({'joliet_path': '/newdir'} if J else {}, **rrn('n')))
    if udf_dir:
        add('add_directory', iso_path='/NEWDIR', udf_path=udf_dir, **dict({'joliet_path': '/newdir'} if J else {}, **rrn('n')))
    add('add_directory', joliet_path='/newdir', udf_path='/nope/newdir')
    add('add_directory', iso_path='/X1/X2/X3/X4/X5/X6/X7/X8', **rrn('n'))     # too deep / missing parents

    # ---- add_hard_link ----------------------------------------------------
    add('add_hard_link')
    add('add_hard_link', iso_old_path='/NOPE.;1', iso_new_path=new_iso, **rrn('n'))
    add('add_hard_link', boot_catalog_old=True, iso_new_path=new_iso, **rrn('n'))
    if iso_file:
        add('add_hard_link', iso_old_path=iso_file)
        add('add_hard_link', iso_old_path=iso_file, iso_new_path=iso_file, **rrn('n'))
        add('add_hard_link', iso_old_path=iso_file, iso_new_path='/NOPE/L.;1', **rrn('n'))
        add('add_hard_link', iso_old_path=iso_file, iso_new_path='/l.;1', **rrn('n'))
        add('add_hard_link', iso_old_path=iso_file, iso_new_path=new_iso, joliet_new_path=new_j, **rrn('n'))
        add('add_hard_link', iso_old_path=iso_file, joliet_new_path='/nope/l')
        add('add_hard_link', iso_old_path=iso_file, joliet_new_path='/' + LONG_J)
        add('add_hard_link', iso_old_path=iso_file, udf_new_path='/nope/l')
        add('add_hard_link', iso_old_path=iso_file, bogus_key='/x')
        if rr:
            add('add_hard_link', iso_old_path=iso_file, iso_new_path=new_iso)
        if jol_file:
            add('add_hard_link', iso_old_path=iso_file, joliet_new_path=jol_file)
            add('add_hard_link', iso_old_path=iso_file, joliet_old_path=jol_file, iso_new_path=new_iso, **rrn('n'))
        if udf_file:
            add('add_hard_link', iso_old_path=iso_file, udf_new_path=udf_file)
    if iso_dir:
        add('add_hard_link', iso_old_path=iso_dir, iso_new_path=new_iso, **rrn('n'))
    if udf_dir:
        add('add_hard_link', udf_old_path=udf_dir, iso_new_path=new_iso, **rrn('n'))

    # ---- rm_hard_link / rm_file / rm_directory ------------------------------
    add('rm_hard_link')
    add('rm_hard_link', iso_path='/NOPE.;1')
    add('rm_hard_link', joliet_path='/nope')
    add('rm_hard_link', udf_path='/nope')
    if iso_dir:
        add('rm_hard_link', iso_path=iso_dir)
        add('rm_file', iso_path=iso_dir)
    if jol_dir:
        add('rm_hard_link', joliet_path=jol_dir)
        add('rm_file', joliet_path=jol_dir)
    if udf_dir:
        add('rm_hard_link', udf_path=udf_dir)
        add('rm_file', udf_path=udf_dir)
    if iso_file and jol_file:
        add('rm_hard_link', iso_path=iso_file, joliet_path=jol_file)
    add('rm_file')
    add('rm_file', iso_path='/NOPE.;1')
    add('rm_file', joliet_path='/nope')
    add('rm_file', udf_path='/nope')
    if model.boot:
        for e in model.boot['entries'][:1]:
            for ns, p in model.names_of(e['bid'])[:2]:
                add('rm_file', **{{'iso': 'iso_path', 'joliet': 'joliet_path', 'udf': 'udf_path'}[ns]: p})
        for ns, p in model.names_of('CAT')[:2]:
            add('rm_file', **{{'iso': 'iso_path', 'joliet': 'joliet_path', 'udf': 'udf_path'}[ns]: p})
    add('rm_directory')
    add('rm_directory', iso_path='/')
    add('rm_directory', iso_path='/NOPE')
    add('rm_directory', joliet_path='/nope')
    add('rm_directory', udf_path='/nope')
    add('rm_directory', udf_path='/')
    if iso_file:
        add('rm_directory', iso_path=iso_file)
    if iso_dir:
        # first namespace valid, second/third wrong
        add('rm_directory', iso_path=iso_dir, joliet_path='/nope')
        add('rm_directory', iso_path=iso_dir, udf_path='/nope')
        if model.children(model.iso, iso_dir):
            add('rm_directory', iso_path=iso_dir)
    # the directory addressed in every namespace at once: a fault when it is not empty in just one of them
    for dk in ('D1', 'E1'):
        d = DIRS[dk]
        kw = {}
        if d['iso'] in model.iso:
            kw['iso_path'] = d['iso']
        if model.jol is not None and d['joliet'] in model.jol:
            kw['joliet_path'] = d['joliet']
        if model.udf is not None and d['udf'] in model.udf:
            kw['udf_path'] = d['udf']
        if len(kw) > 1:
            add('rm_directory', **kw)
    if jol_dir:
        add('rm_directory', joliet_path=jol_dir, udf_path='/nope')
    if jol_file:
        add('rm_directory', joliet_path=jol_file)
    if udf_file:
        add('rm_directory', udf_path=udf_file)

    # ---- add_symlink ------------------------------------------------------
    add('add_symlink')
    add('add_symlink', symlink_path='/SYM.;1')
    add('add_symlink', symlink_path='/SYM.;1', rr_symlink_name='sym')
    add('add_symlink', symlink_path='/SYM.;1', rr_symlink_name='sym', rr_path='t', joliet_path='/nope/sym')
    add('add_symlink', symlink_path='/NOPE/SYM.;1', rr_symlink_name='sym', rr_path='t')
    add('add_symlink', symlink_path='/sym.;1', rr_symlink_name='sym', rr_path='t')
    add('add_symlink', rr_symlink_name='sym', rr_path='t')
    add('add_symlink', udf_symlink_path='/sym')
    add('add_symlink', udf_symlink_path='/nope/sym', udf_target='t')
    add('add_symlink', symlink_path='/SYM.;1', rr_symlink_name='sym', rr_path='t', udf_symlink_path='/nope/sym', udf_target='t')
    add('add_symlink', symlink_path='/SYM.;1', udf_symlink_path='/nope/sym', udf_target='t')
    if iso_file:
        add('add_symlink', symlink_path=iso_file, rr_symlink_name='sym', rr_path='t')
    if jol_file:
        add('add_symlink', symlink_path='/SYM.;1', rr_symlink_name='sym', rr_path='t', joliet_path=jol_file)
    if udf_file:
        add('add_symlink', symlink_path='/SYM.;1', rr_symlink_name='sym', rr_path='t', udf_symlink_path=udf_file, udf_target='t')
        add('add_symlink', udf_symlink_path=udf_file, udf_target='t')

    # ---- payloads that cannot be recorded (refused late in the call unless pre-checked) ----
    LONG_T = '/'.join(['t' * 248] * 9)          # Rock Ridge target needing more than one continuation block
    if U:
        add('add_symlink', udf_symlink_path='/sym', udf_target='a' * 255)
        add('add_symlink', symlink_path='/SYM.;1', udf_symlink_path='/sym', udf_target='a' * 255, **({'joliet_path': '/sym'} if J else {}))
        if rr:
            add('add_symlink', symlink_path='/SYM.;1', rr_symlink_name='sym', rr_path='t', udf_symlink_path='/sym', udf_target='b/' + 'a' * 255,
                **({'joliet_path': '/sym'} if J else {}))
        add('add_fp', content='c1', iso_path=new_iso, udf_path='/' + 'u' * 255, **dict(jkw, **rrn('n')))
        add('add_directory', iso_path='/NEWD', udf_path='/' + 'u' * 255, **dict(jkw, **rrn('n')))
        add('add_hard_link', **dict({'iso_old_path': iso_file, 'udf_new_path': '/' + 'u' * 255} if iso_file else {'udf_new_path': '/x'}))
    if rr:
        add('add_symlink', symlink_path='/SYM.;1', rr_symlink_name='sym', rr_path=LONG_T, **({'joliet_path': '/sym'} if J else {}))
        add('add_fp', content='c1', iso_path=new_iso, rr_name='n' * 3000, **jkw)
        add('add_directory', iso_path='/NEWD', rr_name='n' * 3000, **jkw)
        add('add_symlink', symlink_path='/SYM.;1', rr_symlink_name='s' * 3000, rr_path='t')
        if iso_file:
            add('add_hard_link', iso_old_path=iso_file, iso_new_path='/LNK.;1', rr_name='n' * 3000)
    if J and iso_file:
        add('add_hard_link', iso_old_path=iso_file, joliet_new_path='/' + LONG_J)

    # ---- El Torito / hybrid ---------------------------------------------------
    add('rm_eltorito')
    add('add_eltorito', bootfile_path='/NOPE.;1')
    add('add_isohybrid')
    if iso_dir:
        add('add_eltorito', bootfile_path=iso_dir)
    if iso_file:
        add('add_eltorito', bootfile_path=iso_file)                       # a fault when a default catalog name is taken
        add('add_eltorito', bootfile_path=iso_file, boot_info_table=True)
        add('add_eltorito', bootfile_path=iso_file, media_name='bogus')
        add('add_eltorito', bootfile_path=iso_file, media_name='floppy')
        add('add_eltorito', bootfile_path=iso_file, media_name='hdemul')
        add('add_eltorito', bootfile_path=iso_file, media_name='hdemul', boot_info_table=True)
        add('add_eltorito', bootfile_path=iso_file, platform_id=0x1234)
        add('add_eltorito', bootfile_path=iso_file, boot_load_size=70000)
        add('add_eltorito', bootfile_path=iso_file, bootcatfile=iso_file, **({'rr_bootcatname': 'cat'} if rr else {}))
        add('add_eltorito', bootfile_path=iso_file, bootcatfile='/nope/CAT.;1')
        add('add_eltorito', bootfile_path=iso_file, bootcatfile='/cat.;1')
        add('add_eltorito', bootfile_path=iso_file, joliet_bootcatfile='/nope/cat')
        add('add_eltorito', bootfile_path=iso_file, boot_info_table=True, joliet_bootcatfile='/nope/cat')
        add('add_eltorito', bootfile_path=iso_file, udf_bootcatfile='/nope/cat')
        add('add_eltorito', bootfile_path=iso_file, boot_info_table=True, udf_bootcatfile='/nope/cat')
        if jol_file:
            add('add_eltorito', bootfile_path=iso_file, joliet_bootcatfile=jol_file)
        if udf_file:
            add('add_eltorito', bootfile_path=iso_file, udf_bootcatfile=udf_file)
        if rr:
            add('add_eltorito', bootfile_path=iso_file, rr_bootcatname='a/b')
    if model.boot:
        add('add_isohybrid', part_entry=7)
        add('add_isohybrid', geometry_sectors=0)
        add('add_isohybrid', geometry_heads=257)
        add('add_isohybrid', geometry_heads=1000)
        add('add_isohybrid', mac=True, efi=False)
        add('add_isohybrid', mbr_id=1 << 40)
        add('add_isohybrid', part_type=4096)

    # ---- hidden / relocated name / state ------------------------------------------
    add('set_hidden')
    add('set_hidden', iso_path='/NOPE.;1')
    add('set_hidden', joliet_path='/nope')
    add('set_hidden', rr_path='/nope')
    add('clear_hidden', iso_path='/NOPE.;1')
    if iso_file and jol_file:
        add('set_hidden', iso_path=iso_file, joliet_path=jol_file)
    add('set_relocated_name', name='relo', rr_name='relo')
    add('set_relocated_name', name='RELOCATEDDIRNAME', rr_name='relo')
    if model.rr_moved:
        add('set_relocated_name', name='OTHER', rr_name='other')
    # taken names that are not ASCII in the second / third namespace (the stored identifier differs from the UTF-8 path component)
    def nonascii(tree):
        for pth in sorted(tree or ()):
            if any(ord(ch) > 127 for ch in pth):
                return pth
        return None
    for ns_key, taken in (('udf', nonascii(model.udf)), ('joliet', nonascii(model.jol))):
        if not taken:
            continue
        other = dict(jkw) if ns_key == 'udf' else {}
        add('add_fp', content='c1', iso_path=new_iso, **dict(other, **dict({ns_key + '_path': taken}, **rrn('n'))))
        add('add_directory', iso_path='/NEWDIR', **dict({'joliet_path': '/newdir'} if (J and ns_key == 'udf') else {}, **dict({ns_key + '_path': taken}, **rrn('n'))))
        if iso_file:
            add('add_hard_link', iso_old_path=iso_file, **{ns_key + '_new_path': taken})
        if rr and ns_key == 'udf':
            add('add_symlink', symlink_path='/SYM.;1', rr_symlink_name='sym', rr_path='t', udf_symlink_path=taken, udf_target='t')
    add('new')
    add('open_fp_garbage')
    add('modify_file_in_place_nobacking', iso_path=iso_file or '/NOPE.;1')
    return out
