"""Recording / budgeted / virtual file objects (DESIGN.md 3.5, 3.6)."""
import io


class RecFile(io.BytesIO):
    """BytesIO that logs every write as (offset, length)."""

    def __init__(self, initial=b''):
        io.BytesIO.__init__(self, initial)
        self.writes = []
        self.reads = []

    def write(self, b):
        off = self.tell()
        n = io.BytesIO.write(self, b)
        if n:
            self.writes.append((off, n))
        return n

    def read(self, n=-1):
        off = self.tell()
        r = io.BytesIO.read(self, n)
        self.reads.append((off, len(r)))
        return r


class Budget(BaseException):
    """Raised (as a BaseException so that no library handler swallows it) when an I/O budget is exceeded."""


class BudgetFile(io.BytesIO):
    def __init__(self, data, max_calls, max_bytes):
        io.BytesIO.__init__(self, data)
        self.calls = 0
        self.bytes = 0
        self.max_calls = max_calls
        self.max_bytes = max_bytes

    def _tick(self, n=0):
        self.calls += 1
        self.bytes += n
        if self.calls > self.max_calls:
            raise Budget('I/O call budget exceeded (%d calls)' % self.calls)
        if self.bytes > self.max_bytes:
            raise Budget('I/O byte budget exceeded (%d bytes)' % self.bytes)

    def read(self, n=-1):
        r = io.BytesIO.read(self, n)
        self._tick(len(r))
        return r

    def seek(self, *a):
        self._tick()
        return io.BytesIO.seek(self, *a)

    def tell(self):
        self._tick()
        return io.BytesIO.tell(self)


def double_writes(writes, limit):
    """Byte ranges inside [0, limit) written more than once.  writes: list of (offset, length)."""
    ev = sorted((o, o + n) for o, n in writes if n > 0)
    out = []
    cur_end = -1
    for s, e in ev:
        if s < cur_end and s < limit:
            out.append((s, min(e, cur_end, limit)))
        cur_end = max(cur_end, e)
    return out
