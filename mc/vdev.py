"""Recording / budgeted / virtual file objects (DESIGN.md 3.5, 3.6)."""
import io


class RecFile(io.BytesIO):
    """BytesIO that logs every write as (offset, length)."""

    def __init__(self, initial=b''):
        io.BytesIO.__init__(self, initial)
        self.writes = []
        self.reads = []

    def write(self, b):
        off = self.tell()
        n = io.BytesIO.write(self, b)
        if n:
            self.writes.append((off, n))
        return n

    def read(self, n=-1):
        off = self.tell()
        r = io.BytesIO.read(self, n)
        self.reads.append((off, len(r)))
        return r


class Budget(BaseException):
    """Raised (as a BaseException so that no library handler swallows it) when an I/O budget is exceeded."""


class BudgetFile(io.BytesIO):
    def __init__(self, data, max_calls, max_bytes):
        io.BytesIO.__init__(self, data)
        self.calls = 0
        self.bytes = 0
        self.max_calls = max_calls
        self.max_bytes = max_bytes

    def _tick(self, n=0):
        self.calls += 1
        self.bytes += n
        if self.calls > self.max_calls:
            raise Budget('I/O call budget exceeded (%d calls)' % self.calls)
        if self.bytes > self.max_bytes:
            raise Budget('I/O byte budget exceeded (%d bytes)' % self.bytes)

    def read(self, n=-1):
        r = io.BytesIO.read(self, n)
        self._tick(len(r))
        return r

    def seek(self, *a):
        self._tick()
        return io.BytesIO.seek(self, *a)

    def tell(self):
        self._tick()
        return io.BytesIO.tell(self)


def double_writes(writes, limit):
    """Byte ranges inside [0, limit) written more than once.  writes: list of (offset, length)."""
    ev = sorted((o, o + n) for o, n in writes if n > 0)
    out = []
    cur_end = -1
    for s, e in ev:
        if s < cur_end and s < limit:
            out.append((s, min(e, cur_end, limit)))
        cur_end = max(cur_end, e)
    return out


# ---------------------------------------------------------------------------------------------------------------------
# virtual devices for multi-gigabyte files (DESIGN.md 3.5)

PAGE = 65536
_FILL = bytes((i * 37 + 11) % 251 for i in range(PAGE - 16))


def pattern_page(src_id, index):
    """One 64 KiB page of source src_id: 16-byte header (magic, source id, page index) + fixed filler."""
    return b'PGv1' + src_id.to_bytes(4, 'big') + index.to_bytes(8, 'big') + _FILL


def pattern_bytes(src_id, offset, length, total):
    """Bytes [offset, offset+length) of the virtual source of `total` bytes."""
    length = max(0, min(length, total - offset))
    out = []
    pos = offset
    end = offset + length
    while pos < end:
        idx, within = divmod(pos, PAGE)
        n = min(PAGE - within, end - pos)
        pg = pattern_page(src_id, idx)
        out.append(pg if (within == 0 and n == PAGE) else pg[within:within + n])
        pos += n
    return b''.join(out)


class PatternSource(io.RawIOBase):
    """Read-only file object of `total` bytes whose content is a function of the offset (costs no memory)."""

    def __init__(self, src_id, total):
        io.RawIOBase.__init__(self)
        self.src_id, self.total, self.pos = src_id, total, 0
        self.mode = 'rb'

    def readable(self):
        return True

    def seekable(self):
        return True

    def seek(self, off, whence=0):
        if whence == 0:
            self.pos = off
        elif whence == 1:
            self.pos += off
        else:
            self.pos = self.total + off
        return self.pos

    def tell(self):
        return self.pos

    def read(self, n=-1):
        if n is None or n < 0:
            n = self.total - self.pos
        b = pattern_bytes(self.src_id, self.pos, n, self.total)
        self.pos += len(b)
        return b


class SparseSink(io.RawIOBase):
    """
    Output object for huge images: writes that are whole pattern pages are recorded as runs
    (dest offset, length, source id, source offset) instead of being stored; everything else is stored.
    Readable, so that the image can be reopened by pycdlib and by the decoders (through VirtualBytes).
    """

    def __init__(self):
        io.RawIOBase.__init__(self)
        self.pos = 0
        self.size = 0
        self.chunks = {}      # dest offset -> bytes   (non-pattern data, non-overlapping after normalisation)
        self.runs = []        # (dest, length, src_id, src_off)
        self.mode = 'rb+'
        self.writes = []

    def readable(self):
        return True

    def writable(self):
        return True

    def seekable(self):
        return True

    def seek(self, off, whence=0):
        if whence == 0:
            self.pos = off
        elif whence == 1:
            self.pos += off
        else:
            self.pos = self.size + off
        return self.pos

    def tell(self):
        return self.pos

    def write(self, b):
        b = bytes(b)
        n = len(b)
        self.writes.append((self.pos, n))
        off = 0
        # pattern pages are recognised wherever a chunk starts with a page header and is followed by whole pages
        while off < n:
            if n - off >= PAGE and b[off:off + 4] == b'PGv1':
                src = int.from_bytes(b[off + 4:off + 8], 'big')
                idx = int.from_bytes(b[off + 8:off + 16], 'big')
                k = 0
                while n - off - k * PAGE >= PAGE and b[off + k * PAGE:off + k * PAGE + 16] == b'PGv1' + src.to_bytes(4, 'big') + (idx + k).to_bytes(8, 'big') \
                        and b[off + k * PAGE + 16:off + k * PAGE + 48] == _FILL[:32]:
                    k += 1
                if k:
                    dest = self.pos + off
                    if self.runs and self.runs[-1][2] == src and self.runs[-1][0] + self.runs[-1][1] == dest \
                            and self.runs[-1][3] + self.runs[-1][1] == idx * PAGE:
                        last = self.runs[-1]
                        self.runs[-1] = (last[0], last[1] + k * PAGE, src, last[3])
                    else:
                        self.runs.append((dest, k * PAGE, src, idx * PAGE))
                    off += k * PAGE
                    continue
            # plain data up to the next possible page header
            nxt = b.find(b'PGv1', off + 1)
            if nxt < 0 or n - nxt < PAGE:
                nxt = n
            self.chunks[self.pos + off] = b[off:nxt]
            off = nxt
        self.pos += n
        self.size = max(self.size, self.pos)
        return n

    def _read_at(self, start, n):
        end = min(start + n, self.size)
        if end <= start:
            return b''
        buf = bytearray(end - start)
        for dest, ln, src, soff in self.runs:
            a, e = max(dest, start), min(dest + ln, end)
            if a < e:
                buf[a - start:e - start] = pattern_bytes(src, soff + (a - dest), e - a, 1 << 62)
        for dest, data in self.chunks.items():
            a, e = max(dest, start), min(dest + len(data), end)
            if a < e:
                buf[a - start:e - start] = data[a - dest:e - dest]
        return bytes(buf)

    def read(self, n=-1):
        if n is None or n < 0:
            n = self.size - self.pos
        b = self._read_at(self.pos, n)
        self.pos += len(b)
        return b

    def normalise(self):
        """Sort runs; later writes win (pycdlib only overwrites small metadata ranges)."""
        self.runs.sort()


class VirtualBytes(object):
    """bytes-like view (len, int index, slice) of a SparseSink for the decoders."""

    def __init__(self, sink):
        self.sink = sink

    def __len__(self):
        return self.sink.size

    def __getitem__(self, k):
        if isinstance(k, slice):
            start, stop, step = k.indices(self.sink.size)
            assert step == 1
            return self.sink._read_at(start, stop - start)
        if k < 0:
            k += self.sink.size
        return self.sink._read_at(k, 1)[0]
