"""
Operation vocabulary (DESIGN.md section 3.3): builds candidate steps from the
reference model's state.  A *step* is a list of primitive operations (usually
one; macro steps push a structure across a boundary in one transition).

Alphabets are ordered simplest-first.
"""
from mc.model import Model, ModelRefuse

# directory keys -> per-namespace paths
DIRS = {
    '/': {'iso': '/', 'rr': None, 'joliet': '/', 'udf': '/'},
    'D1': {'iso': '/D1', 'rr': 'd1', 'joliet': '/d1', 'udf': '/d1'},
    'D2': {'iso': '/D1/D2', 'rr': 'd2', 'joliet': '/d1/d2', 'udf': '/d1/d2'},
    'E1': {'iso': '/E1', 'rr': 'e1', 'joliet': '/e1', 'udf': '/e1'},
}
DIR_PARENT = {'D1': '/', 'D2': 'D1', 'E1': '/'}

# file keys -> names
FILES = {
    'A': {'iso': 'A.;1', 'rr': 'a', 'joliet': 'a', 'udf': 'a'},
    'B': {'iso': 'B.;1', 'rr': 'b', 'joliet': 'b', 'udf': 'b'},
    'AB': {'iso': 'AB.;1', 'rr': 'ab', 'joliet': 'ab', 'udf': 'ab'},
    'L': {'iso': 'L.;1', 'rr': 'l', 'joliet': 'l', 'udf': 'l'},
    'S': {'iso': 'S.;1', 'rr': 's', 'joliet': 's', 'udf': 's'},
    'AE': {'iso': 'A.B;1', 'rr': 'a.b', 'joliet': 'a.b', 'udf': 'a.b'},
    'AE1': {'iso': 'A.B1;1', 'rr': 'a.b1', 'joliet': 'a.b1', 'udf': 'a.b1'},
    'LONGRR': {'iso': 'LONG.;1', 'rr': 'r' * 251, 'joliet': 'long', 'udf': 'long'},
    'CAT': {'iso': 'BOOT.CAT;1', 'rr': 'boot.cat', 'joliet': 'boot.cat', 'udf': 'boot.cat'},
    'UNI': {'iso': 'UNI.;1', 'rr': 'unié', 'joliet': 'ä中', 'udf': 'ä中'},
}


def join(d, n):
    return (d if d.endswith('/') else d + '/') + n


def nss(cfg, mode='all'):
    """namespaces used for an entry in this configuration under a namespace mode."""
    have = ['iso']
    if cfg.get('joliet'):
        have.append('joliet')
    if cfg.get('udf'):
        have.append('udf')
    if mode == 'all':
        return have
    if mode == 'iso':
        return ['iso']
    if mode == 'jonly':
        return ['joliet'] if 'joliet' in have else None
    if mode == 'uonly':
        return ['udf'] if 'udf' in have else None
    if mode == 'iso+j':
        return ['iso', 'joliet'] if 'joliet' in have else None
    if mode == 'iso+u':
        return ['iso', 'udf'] if 'udf' in have else None
    raise ValueError(mode)


def add_fp(cfg, fkey, dkey, content, mode='all', file_mode=None):
    ns = nss(cfg, mode)
    if ns is None:
        return None
    f, d = FILES[fkey], DIRS[dkey]
    kw = {'content': content}
    if 'iso' in ns:
        kw['iso_path'] = join(d['iso'], f['iso'])
        if cfg.get('rr'):
            kw['rr_name'] = f['rr']
            if file_mode is not None:
                kw['file_mode'] = file_mode
    if 'joliet' in ns:
        kw['joliet_path'] = join(d['joliet'], f['joliet'])
    if 'udf' in ns:
        kw['udf_path'] = join(d['udf'], f['udf'])
    return ['add_fp', kw]


def add_dir(cfg, dkey, mode='all', file_mode=None):
    ns = nss(cfg, mode)
    if ns is None:
        return None
    d = DIRS[dkey]
    kw = {}
    if 'iso' in ns:
        kw['iso_path'] = d['iso']
        if cfg.get('rr'):
            kw['rr_name'] = d['rr']
            if file_mode is not None:
                kw['file_mode'] = file_mode
    if 'joliet' in ns:
        kw['joliet_path'] = d['joliet']
    if 'udf' in ns:
        kw['udf_path'] = d['udf']
    return ['add_directory', kw]


def rm_dir(cfg, dkey, mode='all'):
    op = add_dir(cfg, dkey, mode)
    if op is None:
        return None
    kw = dict(op[1])
    kw.pop('file_mode', None)
    return ['rm_directory', kw]


def enabled(model, step):
    """Model state after the step, or None if the documented rules refuse any op of it."""
    m = model.copy()
    try:
        for op in step:
            m.apply(op)
    except ModelRefuse:
        return None
    return m


def link_ops(cfg, model, new_key='L', olds=('A',), dkeys=('/',)):
    """add_hard_link candidates: every old namespace x new namespace."""
    out = []
    f = FILES[new_key]
    for okey in olds:
        o = FILES[okey]
        for dk in dkeys:
            d = DIRS[dk]
            olds_kw = [('iso_old_path', join(d['iso'], o['iso']))]
            if cfg.get('joliet'):
                olds_kw.append(('joliet_old_path', join(d['joliet'], o['joliet'])))
            if cfg.get('udf'):
                olds_kw.append(('udf_old_path', join(d['udf'], o['udf'])))
            for ok, ov in olds_kw:
                kw = {ok: ov, 'iso_new_path': join('/', f['iso'])}
                if cfg.get('rr'):
                    kw['rr_name'] = f['rr']
                out.append(['add_hard_link', kw])
                if cfg.get('joliet'):
                    out.append(['add_hard_link', {ok: ov, 'joliet_new_path': join('/', f['joliet'])}])
                if cfg.get('udf'):
                    out.append(['add_hard_link', {ok: ov, 'udf_new_path': join('/', f['udf'])}])
    return out


def removal_ops(model, kinds=('rm_file', 'rm_hard_link')):
    """rm_file / rm_hard_link addressed at every existing non-directory entry in every namespace."""
    out = []
    for ns, key in (('iso', 'iso_path'), ('joliet', 'joliet_path'), ('udf', 'udf_path')):
        t = model.tree(ns)
        if not t:
            continue
        for p in sorted(t):
            if t[p]['kind'] != 'dir':
                for k in kinds:
                    out.append([k, {key: p}])
    return out


def rmdir_ops(cfg, model):
    """rm_directory for every directory key whose per-namespace paths all exist."""
    out = []
    for dk in DIR_PARENT:
        op = rm_dir(cfg, dk)
        out.append(op)
        d = DIRS[dk]
        if cfg.get('joliet'):
            out.append(['rm_directory', {'joliet_path': d['joliet']}])
    return out


def symlink_ops(cfg, skey='S', target='a'):
    f = FILES[skey]
    out = []
    if cfg.get('rr'):
        kw = {'symlink_path': join('/', f['iso']), 'rr_symlink_name': f['rr'], 'rr_path': target}
        out.append(['add_symlink', dict(kw)])
        if cfg.get('joliet'):
            out.append(['add_symlink', dict(kw, joliet_path=join('/', f['joliet']))])
        if cfg.get('udf'):
            out.append(['add_symlink', dict(kw, udf_symlink_path=join('/', f['udf']), udf_target=target)])
    if cfg.get('udf'):
        out.append(['add_symlink', {'udf_symlink_path': join('/', f['udf']), 'udf_target': target}])
        if not cfg.get('rr'):
            out.append(['add_symlink', {'symlink_path': join('/', f['iso']),
                                        'udf_symlink_path': join('/', f['udf']), 'udf_target': target}])
            if cfg.get('joliet'):
                out.append(['add_symlink', {'symlink_path': join('/', f['iso']), 'joliet_path': join('/', f['joliet']),
                                            'udf_symlink_path': join('/', f['udf']), 'udf_target': target}])
    return out


# ---------------------------------------------------------------------------
# macro steps


def grow_dir_step(cfg, dkey, n=None, prefix='G'):
    """
    Enough files in one directory to need a second directory sector in the
    ISO9660 tree (and, with short names, usually in Joliet/UDF as well).
    Record length is 33 + len(name) (+1 pad) (+RR/XA system use).
    """
    lvl = cfg.get('level', 1)
    if n is None:
        if cfg.get('rr'):
            n = 20
        elif lvl == 1:
            n = 46
        else:
            n = 10
    ops = []
    for i in range(n):
        if lvl == 1 or cfg.get('rr'):
            iso = '%s%03d.;1' % (prefix, i)
        else:
            iso = '%s%03d%s.;1' % (prefix, i, 'X' * 180)
        d = DIRS[dkey]
        kw = {'content': 'c1s%d' % (i % 5), 'iso_path': join(d['iso'], iso)}
        if cfg.get('rr'):
            kw['rr_name'] = ('%s%03d' % (prefix.lower(), i)) + 'x' * 60
        if cfg.get('joliet'):
            kw['joliet_path'] = join(d['joliet'], ('%s%03d' % (prefix.lower(), i)) + 'y' * 50)
        if cfg.get('udf'):
            kw['udf_path'] = join(d['udf'], ('%s%03d' % (prefix.lower(), i)) + 'z' * 100)
        ops.append(['add_fp', kw])
    return ops


def shrink_dir_step(grow_step):
    ops = []
    for op in grow_step:
        kw = op[1]
        ops.append(['rm_file', {'iso_path': kw['iso_path']}])
    return ops


def grow_pt_step(cfg, n=None, prefix='P'):
    """Enough directories to push a path table past 4096 bytes (4 sectors -> 8)."""
    lvl = cfg.get('level', 1)
    ops = []
    if lvl == 1:
        n = n or 260   # 8 + 8 bytes each + root
        namelen = 8
    else:
        n = n or (20 if not cfg.get('rr') else 24)    # 8 + 207 (+pad)
        namelen = 207 if not cfg.get('rr') else 176
    for i in range(n):
        iso = ('%s%03d' % (prefix, i)).ljust(namelen, 'Q')
        kw = {'iso_path': '/' + iso}
        if cfg.get('rr'):
            kw['rr_name'] = '%s%03d' % (prefix.lower(), i)
        if cfg.get('joliet'):
            kw['joliet_path'] = '/' + ('%s%03d' % (prefix.lower(), i)).ljust(64, 'q')
        if cfg.get('udf'):
            kw['udf_path'] = '/' + ('%s%03d' % (prefix.lower(), i))
        ops.append(['add_directory', kw])
    return ops


def shrink_pt_step(grow_step):
    return [['rm_directory', dict((k, v) for k, v in op[1].items() if k != 'rr_name' or True)] for op in grow_step]


def grow_ce_step(cfg, n=17, prefix='R'):
    """More than one 2048-byte continuation block of Rock Ridge names (each ~240 bytes)."""
    if not cfg.get('rr'):
        return None
    ops = []
    for i in range(n):
        kw = {'content': 'c1s%d' % (i % 5), 'iso_path': '/%s%03d.;1' % (prefix, i),
              'rr_name': ('%s%03d' % (prefix.lower(), i)).ljust(240, 'n')}
        if cfg.get('joliet'):
            kw['joliet_path'] = '/%s%03d' % (prefix.lower(), i)
        if cfg.get('udf'):
            kw['udf_path'] = '/%s%03d' % (prefix.lower(), i)
        ops.append(['add_fp', kw])
    return ops


def grow_fid_step(cfg, n=50, prefix='U'):
    """More than one sector of UDF file identifiers (38 + len(name)+1, 4-aligned)."""
    if not cfg.get('udf'):
        return None
    ops = []
    for i in range(n):
        kw = {'content': 'c1s%d' % (i % 5), 'udf_path': '/%s%03d' % (prefix.lower(), i)}
        ops.append(['add_fp', kw])
    return ops


def deep_chain_step(cfg, depth, with_file=True):
    """A directory chain /X1/X2/.../X<depth> in every namespace, a file at the bottom."""
    ops = []
    iso = ''
    jol = ''
    for i in range(1, depth + 1):
        iso += '/X%d' % i
        jol += '/x%d' % i
        kw = {'iso_path': iso}
        if cfg.get('rr'):
            kw['rr_name'] = 'x%d' % i
        if cfg.get('joliet'):
            kw['joliet_path'] = jol
        if cfg.get('udf'):
            kw['udf_path'] = jol
        ops.append(['add_directory', kw])
    if with_file:
        kw = {'content': 'c1', 'iso_path': iso + '/F.;1'}
        if cfg.get('rr'):
            kw['rr_name'] = 'f'
        if cfg.get('joliet'):
            kw['joliet_path'] = jol + '/f'
        if cfg.get('udf'):
            kw['udf_path'] = jol + '/f'
        ops.append(['add_fp', kw])
    return ops


# ---------------------------------------------------------------------------
# standard alphabets


def sigma1(model, profile='quick'):
    """
    The general editing alphabet (Sigma-1 of DESIGN.md): candidate steps for a
    model state.  Only steps whose every operation the documented rules accept
    are returned, each paired with the resulting model.
    """
    cfg = model.cfg
    cand = []

    def add(op):
        if op is not None:
            cand.append([op])

    # files
    add(add_fp(cfg, 'A', '/', 'c0'))
    add(add_fp(cfg, 'A', '/', 'c1'))
    add(add_fp(cfg, 'A', '/', 'c2049'))
    add(add_fp(cfg, 'B', '/', 'c1'))
    add(add_fp(cfg, 'B', '/', 'c4097', 'iso'))
    add(add_fp(cfg, 'B', '/', 'c1', 'jonly'))
    add(add_fp(cfg, 'B', '/', 'c1', 'uonly'))
    add(add_fp(cfg, 'AB', 'D1', 'c2049'))
    add(add_fp(cfg, 'A', 'D1', 'c0'))
    # directories
    add(add_dir(cfg, 'D1'))
    add(add_dir(cfg, 'D2'))
    add(add_dir(cfg, 'E1', 'iso'))
    add(add_dir(cfg, 'E1', 'jonly'))
    add(add_dir(cfg, 'E1', 'uonly'))
    # links
    for op in link_ops(cfg, model, 'L', ('A',), ('/',)):
        add(op)
    # symlinks
    for op in symlink_ops(cfg):
        add(op)
    for op in symlink_ops(cfg, 'AE', '/ä中/../b')[:2] + symlink_ops(cfg, 'AE', '/ä中/../b')[-1:]:
        add(op)
    # hidden
    add(['set_hidden', {'iso_path': '/A.;1'}])
    add(['clear_hidden', {'iso_path': '/A.;1'}])
    add(['set_hidden', {'iso_path': '/D1'}])
    if cfg.get('joliet'):
        add(['set_hidden', {'joliet_path': '/a'}])
    if cfg.get('rr'):
        add(['set_hidden', {'rr_path': '/b'}])
    # boot
    add(['add_eltorito', {'bootfile_path': '/A.;1'}])
    add(['add_eltorito', {'bootfile_path': '/B.;1', 'boot_info_table': True}])
    add(['rm_eltorito', {}])
    add(['duplicate_pvd', {}])
    # removals
    for op in removal_ops(model):
        add(op)
    for op in rmdir_ops(cfg, model):
        add(op)
    if profile not in ('quick', 'reopen'):
        add(add_fp(cfg, 'AE', '/', 'c1'))
        add(add_fp(cfg, 'AE1', '/', 'c1s1'))
    if profile == 'reopen':
        add(add_fp(cfg, 'LONGRR', '/', 'c1') if cfg.get('rr') else None)
        if model.generation < 2:
            add(['REOPEN', {}])
            add(['REOPEN_SAME', {}])
    # macro steps
    macros = []
    if profile in ('macro', 'thorough'):
        g = grow_dir_step(cfg, '/')
        macros += [g, shrink_dir_step(g)]
        g = grow_dir_step(cfg, 'D1', prefix='H')
        macros += [g]
        ce = grow_ce_step(cfg)
        if ce:
            macros += [ce, shrink_dir_step(ce)]
        fid = grow_fid_step(cfg)
        if fid:
            macros += [fid, [['rm_file', {'udf_path': op[1]['udf_path']}] for op in fid]]
        pt = grow_pt_step(cfg)
        macros += [pt, shrink_pt_step(pt)]
    if profile == 'reopen' and model.generation >= 1:
        # after a reopen: edits that make the root directory and the path tables grow across a sector / 4 KiB boundary
        macros += [grow_dir_step(cfg, '/'), grow_pt_step(cfg)]
    out = []
    seen = set()
    for step in cand + macros:
        key = repr(step)
        if key in seen:
            continue
        seen.add(key)
        m2 = enabled(model, step)
        if m2 is not None:
            out.append((step, m2))
    return out


# configurations -------------------------------------------------------------

def mk(level=1, joliet=None, rr=None, udf=False, xa=False):
    return {'level': level, 'joliet': joliet, 'rr': rr, 'udf': udf, 'xa': xa}


CFG12 = [
    mk(1), mk(3), mk(4),
    mk(1, rr='1.09'), mk(2, rr='1.10', xa=True), mk(3, rr='1.12'),
    mk(3, joliet=3), mk(1, joliet=1, rr='1.09'),
    mk(3, udf=True), mk(3, joliet=3, udf=True),
    mk(3, joliet=3, rr='1.12', udf=True), mk(4, joliet=2, rr='1.12', udf=True, xa=True),
]

CFG256 = [mk(l, j, r, u, x) for l in (1, 2, 3, 4) for j in (None, 1, 2, 3)
          for r in (None, '1.09', '1.10', '1.12') for u in (False, True) for x in (False, True)]

CFG_MULTI = [mk(3, joliet=3), mk(1, joliet=1, rr='1.09'), mk(3, joliet=3, udf=True),
             mk(3, joliet=3, rr='1.12', udf=True), mk(3, rr='1.09', udf=True),
             mk(4, joliet=2, rr='1.12', udf=True, xa=True)]


def sigma6(model, profile='quick'):
    """
    Alphabet for the schedule property (C06): the general edits plus the calls
    that do not go through _finish_add/_finish_remove (hybrid, hidden,
    duplicate PVD), which is where a stale-metadata flag can be forgotten.
    """
    cfg = model.cfg
    cand = []

    def add(op):
        if op is not None:
            cand.append([op])
    add(add_fp(cfg, 'A', '/', 'boot'))
    add(add_fp(cfg, 'A', '/', 'c4097'))      # the same names with another length (re-added after a removal)
    add(add_fp(cfg, 'B', '/', 'c2049'))
    add(add_fp(cfg, 'A', 'D1', 'c1'))
    add(add_fp(cfg, 'LONGRR', '/', 'c1') if cfg.get('rr') else None)
    add(add_dir(cfg, 'D1'))
    add(['add_eltorito', {'bootfile_path': '/A.;1', 'boot_load_size': 4}])
    add(['add_eltorito', {'bootfile_path': '/B.;1', 'boot_info_table': True}])
    add(['add_isohybrid', {}])
    add(['add_isohybrid', {'efi': True}] if False else None)
    add(['rm_isohybrid', {}])
    add(['rm_eltorito', {}])
    add(['duplicate_pvd', {}])
    add(['set_hidden', {'iso_path': '/B.;1'}])
    for op in link_ops(cfg, model, 'L', ('B',), ('/',))[:3]:
        add(op)
    for op in symlink_ops(cfg)[:2]:
        add(op)
    for op in removal_ops(model, kinds=('rm_file',)):
        add(op)
    add(rm_dir(cfg, 'D1'))
    if profile != 'quick':
        add(['REOPEN', {}])
    out = []
    for step in cand:
        m2 = enabled(model, step)
        if m2 is not None:
            # rm_isohybrid on a non-hybrid image is a no-op; skip it to keep branching down
            if step[0][0] == 'rm_isohybrid' and model.hybrid is None:
                continue
            if step[0][0] == 'add_isohybrid' and model.hybrid is not None:
                continue
            out.append((step, m2))
    return out


# ---------------------------------------------------------------------------
# growth chains: one long history whose every prefix is checked (boundary sweeps)

def chain_files(cfg, n, isolen, dkey='/', rrlen=4, jlen=4, ulen=4, order='lifo', prefix='F', late_short=False):
    """n files added one by one to one directory (identifier length isolen), then removed one by one."""
    lvl = cfg.get('level', 1)
    d = DIRS[dkey]
    adds, rms = [], []
    if cfg.get('rr'):
        isolen = min(isolen, 176)     # a Rock Ridge record must keep room for its CE entry
    for i in range(n):
        stem = ('%s%04d' % (prefix, i))
        if lvl == 1:
            base = stem[:8].ljust(min(isolen, 8), 'X')[:8]
            iso = base + '.;1'
        else:
            iso = stem.ljust(max(isolen - 3, 5), 'X') + '.;1'
        kw = {'content': 'c1s%d' % (i % 5), 'iso_path': join(d['iso'], iso)}
        if cfg.get('rr'):
            kw['rr_name'] = stem.lower().ljust(rrlen, 'r')
        if cfg.get('joliet'):
            kw['joliet_path'] = join(d['joliet'], stem.lower().ljust(jlen, 'j'))
        if cfg.get('udf'):
            kw['udf_path'] = join(d['udf'], stem.lower().ljust(ulen, 'u'))
        adds.append(['add_fp', kw])
        rms.append(['rm_file', {'iso_path': kw['iso_path']}])
    if order == 'lifo':
        rms.reverse()
    pre = []
    if dkey != '/':
        pre = [add_dir(cfg, dkey)] if dkey == 'D1' else [add_dir(cfg, 'D1'), add_dir(cfg, dkey)]
    mid = []
    if late_short:
        # a short name that sorts first and fits into the slack of the first sector: the layout of the later
        # sectors does not change, only the indices of the later children do
        mid = [add_fp(cfg, 'A', dkey, 'c1')]
        rms = rms[:len(rms) // 2] + [['rm_file', {'iso_path': mid[0][1]['iso_path']}]] + rms[len(rms) // 2:]
    return pre + adds + mid + rms


def chain_dirs(cfg, n, isolen, order='lifo', prefix='P', jlen=4, ulen=4):
    lvl = cfg.get('level', 1)
    adds, rms = [], []
    if cfg.get('rr'):
        isolen = min(isolen, 176)
    for i in range(n):
        stem = '%s%04d' % (prefix, i)
        iso = stem[:8] if lvl == 1 else stem.ljust(isolen, 'Q')
        kw = {'iso_path': '/' + iso}
        if cfg.get('rr'):
            kw['rr_name'] = stem.lower()
        if cfg.get('joliet'):
            kw['joliet_path'] = '/' + stem.lower().ljust(jlen, 'q')
        if cfg.get('udf'):
            kw['udf_path'] = '/' + stem.lower().ljust(ulen, 'q')
        adds.append(['add_directory', kw])
        rms.append(['rm_directory', dict(kw)])
    if order == 'lifo':
        rms.reverse()
    return adds + rms


def chain_pt_exact(cfg):
    """
    Directories whose path table records add up to *exactly* 4096 bytes (root record 10 + 4086), then one more (the
    table grows to two more sectors), its removal (back to exactly 4096), the same add again (must grow again), ...
    Returns (ops, index of the first prefix worth judging).
    """
    lvl = cfg.get('level', 1)
    adds = []
    if lvl == 1:
        isos = ['T%04dQQQ' % i for i in range(254)] + ['TA', 'TAB']            # 254 x 16 + 10 + 12 = 4086
        jols = ['t%04d' % i for i in range(256)]
    else:
        isos = [('T%04d' % i).ljust(124, 'Q') for i in range(30)] + ['T0030'.ljust(118, 'Q')]      # 30 x 132 + 126 = 4086
        jols = [('t%04d' % i).ljust(64, 'q') for i in range(29)] + ['t0029'.ljust(32, 'q'), 't0030'.ljust(31, 'q')]   # 29 x 136 + 72 + 70 = 4086

    def mk(iso, jol):
        kw = {'iso_path': '/' + iso}
        if cfg.get('rr'):
            kw['rr_name'] = jol[:12]
        if cfg.get('joliet'):
            kw['joliet_path'] = '/' + jol
        if cfg.get('udf'):
            kw['udf_path'] = '/' + jol[:12]
        return kw
    for iso, jol in zip(isos, jols):
        adds.append(['add_directory', mk(iso, jol)])
    x, y = mk('ZZ', 'zz'), mk('ZY', 'zy')
    last = adds[-1][1]
    tail = [['add_directory', x], ['rm_directory', dict(x)], ['add_directory', dict(x)], ['add_directory', y], ['rm_directory', dict(y)],
            ['rm_directory', dict(x)], ['rm_directory', dict(last)], ['add_directory', dict(last)], ['add_directory', dict(x)]]
    return adds + tail, len(adds) - 1


def chains_for(cfg, tier):
    """(name, [ops]) growth chains for a configuration."""
    out = []
    lvl = cfg.get('level', 1)
    big = tier == 'thorough'
    n = 100 if big else 50
    # ISO9660 directory records: 33 + len (+pad); 44-byte records fill a sector exactly with 45 entries
    out.append(('files-11', chain_files(cfg, n, 11)))
    if big:
        out.append(('files-11-fifo', chain_files(cfg, n, 11, order='fifo')))
        out.append(('files-sub', chain_files(cfg, 60, 11, dkey='D2')))
    if lvl > 1:
        out.append(('files-long', chain_files(cfg, 24 if big else 14, 200, jlen=60, ulen=200, rrlen=100, late_short=True)))
    if cfg.get('rr'):
        out.append(('files-rr-ce', chain_files(cfg, 20 if big else 17, 11, rrlen=240, prefix='R')))
    if cfg.get('udf') or cfg.get('joliet'):
        out.append(('files-jolu', chain_files(cfg, 60 if big else 40, 11, jlen=64, ulen=90, late_short=True)))
    if cfg.get('udf'):
        # UDF file identifiers are 38 + len (4-aligned) bytes after a 40-byte parent entry: a 1-character name
        # (40 bytes) followed by 8-character names (48 bytes) puts the 43rd identifier exactly on a sector boundary
        ch = chain_files(cfg, 48, 11, ulen=8, prefix='V')
        ch[0][1]['udf_path'] = '/a'
        out.append(('udf-align', ch))
    if cfg.get('rr') and lvl < 4:
        # several depth-8 directories with the same ISO9660 name in different parents: all are relocated into one directory
        ch = deep_chain_step(cfg, 6, with_file=False)
        p6 = ch[-1][1]
        for g in ('G', 'H', 'I', 'J'):
            for tail, rrn in (('/' + g, g.lower()), ('/' + g + '/1', 'one')):
                kw = {'iso_path': p6['iso_path'] + tail, 'rr_name': rrn}
                if cfg.get('joliet'):
                    kw['joliet_path'] = p6['joliet_path'] + tail.lower()
                if cfg.get('udf'):
                    kw['udf_path'] = p6['udf_path'] + tail.lower()
                ch.append(['add_directory', kw])
        out.append(('reloc-collide', ch))
    out.append(('files-shuffle', chain_shuffle(cfg, 70 if big else 56)))
    dd = chain_dirs(cfg, (300 if lvl == 1 else 24) if big else (24 if lvl > 1 else 40), 207 if lvl > 1 else 8, jlen=64, ulen=40, prefix='Q')
    if lvl > 1 or big:
        out.append(('dup-dirs', [['duplicate_pvd', {}]] + dd))
    out.append(('dirs', chain_dirs(cfg, (280 if lvl == 1 else 24) if big else (24 if lvl > 1 else 60), 207 if lvl > 1 else 8, jlen=64, ulen=40)))
    if big and lvl > 1:
        out.append(('dirs-fifo', chain_dirs(cfg, 24, 207, order='fifo', jlen=64, ulen=40)))
    if lvl > 1 or big:
        ch, start = chain_pt_exact(cfg)
        out.append(('pt-exact', ch, start))
    return out


def sigma_ce(model, profile='quick'):
    """
    Continuation-area allocator alphabet (Rock Ridge only): directories and files whose Rock Ridge
    names need a continuation entry of two adjacent sizes, added and removed so that holes of every
    size open and are refilled by an entry of the same / the next size.
    """
    cfg = model.cfg
    if not cfg.get('rr'):
        return []
    lens = (200, 201) if profile == 'quick' else (200, 201, 202)
    dirs = ('C1', 'C2', 'C3') if profile == 'quick' else ('C1', 'C2', 'C3', 'C4')
    cand = []
    for dname in dirs:
        for ln in lens:
            kw = {'iso_path': '/' + dname, 'rr_name': (dname.lower() + '_').ljust(ln, 'n')}
            if cfg.get('joliet'):
                kw['joliet_path'] = '/' + dname.lower()
            if cfg.get('udf'):
                kw['udf_path'] = '/' + dname.lower()
            cand.append([['add_directory', kw]])
        kw = {'iso_path': '/' + dname}
        if cfg.get('joliet'):
            kw['joliet_path'] = '/' + dname.lower()
        if cfg.get('udf'):
            kw['udf_path'] = '/' + dname.lower()
        cand.append([['rm_directory', kw]])
    for sub in ('S1', 'S2'):
        kw = {'iso_path': '/C1/' + sub, 'rr_name': sub.lower()}
        if cfg.get('joliet'):
            kw['joliet_path'] = '/c1/' + sub.lower()
        if cfg.get('udf'):
            kw['udf_path'] = '/c1/' + sub.lower()
        cand.append([['add_directory', kw]])
        cand.append([['rm_directory', dict((k, v) for k, v in kw.items() if k != 'rr_name')]])
    if profile != 'quick':
        for ln in lens[:2]:
            kw = {'content': 'c1', 'iso_path': '/CF.;1', 'rr_name': 'cf_'.ljust(ln, 'n')}
            cand.append([['add_fp', kw]])
        cand.append([['rm_file', {'iso_path': '/CF.;1'}]])
    out = []
    for step in cand:
        m2 = enabled(model, step)
        if m2 is not None:
            out.append((step, m2))
    return out


def sigma_ce_reopen(model, profile='quick'):
    """sigma_ce with REOPEN as a step: holes in a continuation block that only exist after the image was parsed again."""
    out = sigma_ce(model, profile)
    if out or model.iso:
        if model.generation < 1 and len(model.iso) > 1:
            m2 = enabled(model, [['REOPEN', {}]])
            if m2 is not None:
                out.append(([['REOPEN', {}]], m2))
    return out


CFG_RR = [mk(1, rr='1.09'), mk(2, rr='1.10', xa=True), mk(3, rr='1.12'), mk(3, joliet=3, rr='1.12', udf=True)]


def reopen_bases(cfg):
    """Fixed, deliberately varied base histories: images to be reopened and then edited exhaustively."""
    rr = cfg.get('rr')
    bases = []

    def S(*ops_):
        return [[op] for op in ops_ if op is not None]
    bases.append(('two-empty', S(add_dir(cfg, 'D1'), add_fp(cfg, 'A', '/', 'c0'), add_fp(cfg, 'B', '/', 'c0'), add_fp(cfg, 'AB', 'D1', 'c2049'))))
    links = link_ops(cfg, None, 'L', ('A',), ('/',))
    bases.append(('links', S(add_fp(cfg, 'A', '/', 'c2049'), links[0], links[1] if len(links) > 1 else None,
                             links[2] if len(links) > 2 else None, *(symlink_ops(cfg)[:1]))))
    bases.append(('boot', S(add_fp(cfg, 'A', '/', 'boot'), ['add_eltorito', {'bootfile_path': '/A.;1'}],
                            add_fp(cfg, 'B', '/', 'c2049', 'iso'), ['set_hidden', {'iso_path': '/A.;1'}])))
    if rr:
        bases.append(('ce', S(add_fp(cfg, 'LONGRR', '/', 'c1'), add_fp(cfg, 'A', '/', 'c1'), add_dir(cfg, 'D1'))))
        bases.append(('deep', [deep_chain_step(cfg, 9)] + S(add_fp(cfg, 'A', '/', 'c1'))))
    bases.append(('bigdir', [grow_dir_step(cfg, '/')] + S(add_fp(cfg, 'A', '/', 'c1'))))
    bases.append(('dup2', S(['duplicate_pvd', {}], ['duplicate_pvd', {}], add_fp(cfg, 'A', '/', 'c1'), add_dir(cfg, 'D1'))))
    bases.append(('divergent', S(add_fp(cfg, 'B', '/', 'c1', 'jonly'), add_fp(cfg, 'A', '/', 'c1', 'uonly'), add_dir(cfg, 'E1', 'iso'),
                                 add_fp(cfg, 'AB', '/', 'c1', 'iso'))))
    out = []
    for name, steps in bases:
        steps = [s for s in steps if s]
        m = Model(cfg)
        ok = True
        for st in steps:
            m2 = enabled(m, st)
            if m2 is None:
                ok = False
                break
            m = m2
        if ok:
            out.append((name, steps))
    return out


def sigma7(model, profile='quick'):
    """Hard-link alphabet (C07): names of one content in every namespace, El Torito references, reopen."""
    cfg = model.cfg
    cand = []

    def add(op):
        if op is not None:
            cand.append([op])
    add(add_fp(cfg, 'A', '/', 'c20480'))
    add(add_fp(cfg, 'A', '/', 'c0'))
    add(add_fp(cfg, 'B', '/', 'c20480s1', 'iso'))
    if profile != 'quick':
        add(add_fp(cfg, 'B', '/', 'c1', 'jonly'))
        add(add_fp(cfg, 'B', '/', 'c1', 'uonly'))
    for op in link_ops(cfg, model, 'L', ('A',), ('/',)):
        add(op)
    kw = {'boot_catalog_old': True, 'iso_new_path': '/L.;1'}
    if cfg.get('rr'):
        kw['rr_name'] = 'l'
    add(['add_hard_link', kw])
    # a second name with the *same identifier* in another directory (records that compare equal but are not the
    # same record); the directory is created in the same step when it does not exist yet
    mk = [] if '/D1' in model.tree('iso') else [add_dir(cfg, 'D1')]
    kw = {'iso_old_path': '/A.;1', 'iso_new_path': '/D1/A.;1'}
    if cfg.get('rr'):
        kw['rr_name'] = 'a'
    cand.append(mk + [['add_hard_link', kw]])
    if cfg.get('joliet'):
        cand.append(mk + [['add_hard_link', {'iso_old_path': '/A.;1', 'joliet_new_path': '/d1/a'}]])
        cand.append(mk + [['add_hard_link', {'joliet_old_path': '/a', 'joliet_new_path': '/d1/a'}]])
    if cfg.get('udf'):
        cand.append(mk + [['add_hard_link', {'udf_old_path': '/a', 'udf_new_path': '/d1/a'}]])
    add(['add_eltorito', {'bootfile_path': '/A.;1'}])
    add(['add_eltorito', {'bootfile_path': '/B.;1'}])
    # two boot entries that load the same file (one step, to stay inside the depth bound)
    cand.append([['add_eltorito', {'bootfile_path': '/A.;1'}], ['add_eltorito', {'bootfile_path': '/A.;1'}]])
    add(['rm_eltorito', {}])
    for op in removal_ops(model):
        add(op)
    if model.generation < (1 if profile == 'quick' else 2):
        add(['REOPEN', {}])
    out = []
    for step in cand:
        m2 = enabled(model, step)
        if m2 is not None:
            out.append((step, m2))
    return out


def chain_shuffle(cfg, n):
    """
    Files added in an order that is not the sort order (every add lands in the middle of the directory) and removed
    in a third order, so that insertions/removals in an early sector are followed by removals in a later one.
    """
    base = chain_files(cfg, n, 11, prefix='S')
    adds, rms = base[:n], base[n:]
    rms = list(reversed(rms))        # rms[i] removes adds[i]
    order_add = [(i * 37) % n for i in range(n)] if n % 37 else list(range(n))
    if len(set(order_add)) != n:
        order_add = list(range(0, n, 2)) + list(range(1, n, 2))
    order_rm = [(i * 11 + 5) % n for i in range(n)]
    if len(set(order_rm)) != n:
        order_rm = list(range(n - 1, -1, -1))
    out = [adds[i] for i in order_add]
    # add one short-named link-like late arrival that sorts first, then remove from the back half first
    out += [rms[i] for i in order_rm]
    return out


def sigma_readd(model, profile='quick'):
    """Re-add alphabet: the same names are added, removed and added again (stale lookup caches, stale indices)."""
    cfg = model.cfg
    cand = []

    def add(op):
        if op is not None:
            cand.append([op])
    add(add_dir(cfg, 'D1'))
    add(rm_dir(cfg, 'D1'))
    add(add_fp(cfg, 'AB', 'D1', 'c1'))
    add(add_fp(cfg, 'A', 'D1', 'c2049'))
    add(add_fp(cfg, 'A', '/', 'c1'))
    add(add_dir(cfg, 'D2'))
    add(rm_dir(cfg, 'D2'))
    for op in removal_ops(model, kinds=('rm_file',)):
        add(op)
    if profile != 'quick':
        for op in removal_ops(model, kinds=('rm_hard_link',)):
            add(op)
        for op in symlink_ops(cfg)[:1]:
            add(op)
    out = []
    for step in cand:
        m2 = enabled(model, step)
        if m2 is not None:
            out.append((step, m2))
    return out


def sigma_readd_q(model, profile='quick'):
    """sigma_readd plus QUERY (walk, look up and read everything through the API) as a step: lookup . remove . re-add . read."""
    out = sigma_readd(model, profile)
    cfg = model.cfg
    for step in ([add_fp(cfg, 'A', '/', 'c2s7')], [['QUERY', {}]]):
        m2 = enabled(model, step)
        if m2 is not None and step[0] is not None:
            out.append((step, m2))
    return out


def sigma11(model, profile='quick'):
    """El Torito alphabet (C11): several boot images, sections, boot info tables, hidden boot files, removal, reopen."""
    cfg = model.cfg
    cand = []

    def add(op):
        if op is not None:
            cand.append([op])
    add(add_fp(cfg, 'A', '/', 'boot'))
    add(add_fp(cfg, 'B', '/', 'c4097', 'iso'))
    add(['add_eltorito', {'bootfile_path': '/A.;1'}])
    add(['add_eltorito', {'bootfile_path': '/A.;1', 'boot_info_table': True, 'boot_load_size': 4}])
    add(['add_eltorito', {'bootfile_path': '/B.;1', 'boot_info_table': True}])
    add(['add_eltorito', {'bootfile_path': '/B.;1', 'efi': True, 'platform_id': 0xef, 'bootable': False}])
    add(['rm_eltorito', {}])
    add(['rm_hard_link', {'iso_path': '/A.;1'}])
    add(['rm_hard_link', {'iso_path': '/B.;1'}])
    add(['rm_hard_link', {'iso_path': '/BOOT.CAT;1'}])
    add(add_dir(cfg, 'D1'))
    if profile != 'quick':
        add(['add_eltorito', {'bootfile_path': '/A.;1', 'platform_id': 1, 'boot_load_seg': 0x7c0}])
        kw = {'boot_catalog_old': True, 'iso_new_path': '/L.;1'}
        if cfg.get('rr'):
            kw['rr_name'] = 'l'
        add(['add_hard_link', kw])
        add(['rm_file', {'iso_path': '/B.;1'}])
    if model.generation < 1:
        add(['REOPEN', {}])
    out = []
    for step in cand:
        m2 = enabled(model, step)
        if m2 is not None:
            out.append((step, m2))
    return out
