"""
E1: exhaustive operation-sequence exploration of the real implementation
(stateless: every node replays its history on a fresh object).
"""
import traceback

from mc import env
from mc.driver import Impl, replay
from mc.model import Model, ModelRefuse


def flat(steps):
    return [op for s in steps for op in s]


def model_of(cfg, steps):
    m = Model(cfg)
    for s in steps:
        for op in s:
            m.apply(op)
    return m


def run_history(cfg, steps, always_consistent=False):
    """
    Replay a history on a fresh object.  Returns (impl, None) or (None, info)
    where info = {'at': index of the step that raised, 'exc': exception, 'refused': bool}.
    """
    env.reset()
    impl = Impl(cfg, always_consistent)
    for i, s in enumerate(steps):
        for op in s:
            try:
                impl.apply(op)
            except env.InvalidInput as e:
                return None, {'at': i, 'exc': e, 'refused': True, 'op': op}
            except Exception as e:
                return None, {'at': i, 'exc': e, 'refused': False, 'op': op, 'tb': traceback.format_exc()}
    return impl, None


def exc_site(e):
    """(type name, innermost pycdlib function) of an exception."""
    tb = e.__traceback__
    site = '?'
    while tb is not None:
        fn = tb.tb_frame.f_code.co_filename
        if '/pycdlib/' in fn:
            site = '%s:%s' % (fn.rsplit('/', 1)[1], tb.tb_frame.f_code.co_name)
        tb = tb.tb_next
    return type(e).__name__, site


def shards(cfg, alphabet_fn, k):
    """
    All model-enabled prefixes: those of length < k are 'shallow' nodes (visited
    alone), those of length == k root a subtree.  Uses the model only.
    """
    shallow = [[]]
    roots = []
    frontier = [([], Model(cfg))]
    for d in range(k):
        nxt = []
        for steps, m in frontier:
            for step, m2 in alphabet_fn(m):
                nxt.append((steps + [step], m2))
        frontier = nxt
        if d < k - 1:
            shallow += [s for s, _ in frontier]
    roots = [s for s, _ in frontier] if k > 0 else []
    return shallow, roots


def dfs(cfg, steps, depth, alphabet_fn, visit, res, model=None):
    """
    Visit the node `steps` and, while len(steps) < depth, all its descendants.
    visit(cfg, steps, model, res) -> True to continue below this node.
    """
    if model is None:
        model = model_of(cfg, steps)
    go = visit(cfg, steps, model, res)
    if not go or len(steps) >= depth:
        return
    for step, m2 in alphabet_fn(model):
        dfs(cfg, steps + [step], depth, alphabet_fn, visit, res, m2)
