"""
Reference model of a PyCdlib object (DESIGN.md section 3.2) - deliberately boring.

An operation is a pair [name, kwargs] of JSON-able values whose kwargs are the
keyword arguments of the public pycdlib call of the same name (plus 'content'
naming the bytes of an add_fp).  The model gives the *documented* meaning of
each call; it never calls into pycdlib.
"""
import copy
import hashlib

# ----------------------------------------------------------------------------
# contents


def content_bytes(key):
    """Deterministic bytes for a content key: 'c<len>' or 'c<len>s<seed>'; 'boot', 'boothyb'."""
    if key == 'boot' or key.startswith('boot'):
        # 2048-byte boot image carrying the isolinux signature at 0x40 so
        # that add_isohybrid accepts it; suffix digits vary the length
        n = 2048
        if key.startswith('boot') and key[4:].isdigit():
            n = int(key[4:])
        b = bytearray((i * 13 + 5) % 253 for i in range(n))
        if n >= 0x44:
            b[0x40:0x44] = b'\xfb\xc0\x78\x70'
        return bytes(b)
    if key[0] == 'z':
        return b'\x00' * int(key[1:])
    assert key[0] == 'c', key
    if 's' in key:
        n, s = key[1:].split('s')
        n, s = int(n), int(s)
    else:
        n, s = int(key[1:]), 0
    seed = (n * 31 + s * 17 + 3) % 251
    return bytes((i * 7 + seed + (i >> 8)) % 251 for i in range(n))


class ModelRefuse(Exception):
    """The documented rules say this call must be refused."""


def _split(path):
    assert path.startswith('/'), path
    if path == '/':
        return None, ''
    p, _, n = path.rpartition('/')
    return (p or '/'), n


D_CHARS = set('ABCDEFGHIJKLMNOPQRSTUVWXYZ0123456789_')


def iso_file_legal(name, level):
    """ECMA-119 7.5 / 10.1 as documented by pycdlib (docs + docstrings)."""
    if name.count(';') > 1:
        return False
    base, _, ver = name.partition(';')
    if ';' in name:
        if not ver.isdigit() or not 1 <= int(ver) <= 32767:
            return False
    if '.' in base:
        nm, _, ext = base.rpartition('.')
    else:
        nm, ext = base, ''
    if not nm and not ext:
        return False
    if level == 1 and (len(nm) > 8 or len(ext) > 3):
        return False
    if level < 4:
        if not set(nm) <= D_CHARS or not set(ext) <= D_CHARS:
            return False
    return True


def iso_dir_legal(name, level):
    if not name:
        return False
    if level == 1 and len(name) > 8:
        return False
    if level in (2, 3) and len(name) > 207:
        return False
    if level < 4 and not set(name) <= D_CHARS:
        return False
    return True


class Model(object):
    """State: three namespace trees + blobs + boot + hybrid."""

    def __init__(self, cfg):
        self.cfg = dict(cfg)
        root = {'kind': 'dir', 'hidden': False}
        self.iso = {'/': dict(root, rr=None, mode=0o040555)}
        self.jol = {'/': dict(root)} if cfg.get('joliet') else None
        self.udf = {'/': dict(root)} if cfg.get('udf') else None
        self.blobs = {}      # bid -> {'content': key, 'bit': bool}
        self.next_bid = 1
        self.boot = None     # {'entries': [ {bid, ...kwargs} ], 'cat': 'CAT'}
        self.hybrid = None
        self.dup_pvds = 0
        self.rr_moved = None
        self.generation = 0

    def copy(self):
        return copy.deepcopy(self)

    # -- helpers ------------------------------------------------------------
    @property
    def rr(self):
        return self.cfg.get('rr')

    def tree(self, ns):
        return {'iso': self.iso, 'joliet': self.jol, 'udf': self.udf}[ns]

    def _need_parent(self, tree, path):
        if tree is None:
            raise ModelRefuse('namespace not on image')
        if not isinstance(path, str) or not path.startswith('/') or path == '/':
            raise ModelRefuse('bad path')
        parent, name = _split(path)
        if '' in path.split('/')[1:]:
            raise ModelRefuse('empty component')
        if parent not in tree or tree[parent]['kind'] != 'dir':
            raise ModelRefuse('missing parent')
        if path in tree:
            raise ModelRefuse('duplicate name')
        return parent, name

    def children(self, tree, path):
        pre = path if path.endswith('/') else path + '/'
        return [p for p in tree if p != path and p.startswith(pre) and '/' not in p[len(pre):]]

    def depth(self, path):
        return len([c for c in path.split('/') if c])

    def _check_iso_new(self, path, is_dir, rr_name):
        parent, name = self._need_parent(self.iso, path)
        lvl = self.cfg['level']
        if is_dir:
            if not iso_dir_legal(name, lvl):
                raise ModelRefuse('illegal dir name')
            if not self.rr and lvl < 4 and self.depth(path) > 7:
                raise ModelRefuse('too deep')
        else:
            if not iso_file_legal(name, lvl):
                raise ModelRefuse('illegal file name')
            if not self.rr and lvl < 4 and self.depth(path) > 7:
                raise ModelRefuse('too deep')
        # the identifier has to fit its directory record (255 bytes); with Rock Ridge the record must also hold the
        # 28-byte CE entry that points at the continuation area (everything else can live there)
        n = len(name.encode('utf-8'))
        room = 33 + n + (1 if n % 2 == 0 else 0) + (14 if self.cfg.get('xa') else 0) + (28 if self.rr else 0)
        if room > (254 if self.rr else 255):
            raise ModelRefuse('identifier does not fit its record')
        if self.rr:
            if not rr_name or '/' in rr_name:
                raise ModelRefuse('rr name required')
            for c in self.children(self.iso, parent):
                if self.iso[c].get('rr') == rr_name:
                    raise ModelRefuse('duplicate rr name')
        else:
            if rr_name:
                raise ModelRefuse('rr name on non-RR image')
        return parent, name

    def _check_jol_new(self, path):
        parent, name = self._need_parent(self.jol, path)
        if len(name.encode('utf-16_be')) // 2 > 64:
            raise ModelRefuse('joliet name too long')
        return parent, name

    def _check_udf_new(self, path):
        parent, name = self._need_parent(self.udf, path)
        return parent, name

    def names_of(self, bid):
        out = []
        for ns in ('iso', 'joliet', 'udf'):
            t = self.tree(ns)
            if t:
                out += [(ns, p) for p, n in t.items() if n.get('bid') == bid]
        return out

    def boot_bids(self):
        if not self.boot:
            return []
        return [e['bid'] for e in self.boot['entries']]

    def _gc(self):
        live = set(self.boot_bids())
        for ns in ('iso', 'joliet', 'udf'):
            t = self.tree(ns)
            if t:
                live |= set(n.get('bid') for n in t.values())
        for b in list(self.blobs):
            if b not in live:
                del self.blobs[b]

    def _file_node(self, ns, path, allow_placeholder=True):
        t = self.tree(ns)
        if t is None:
            raise ModelRefuse('namespace not on image')
        if path not in t:
            raise ModelRefuse('no such entry')
        n = t[path]
        if n['kind'] == 'dir':
            raise ModelRefuse('is a directory')
        return n

    # -- operations ---------------------------------------------------------
    def apply(self, op):
        name, kw = op[0], dict(op[1])
        getattr(self, 'op_' + name)(**kw)
        self._gc()

    def op_add_fp(self, content, iso_path=None, rr_name=None, joliet_path=None,
                  udf_path=None, file_mode=None):
        if iso_path is None and joliet_path is None and udf_path is None:
            raise ModelRefuse('no path')
        if file_mode is not None and not self.rr:
            raise ModelRefuse('mode on non-RR')
        if iso_path is not None:
            self._check_iso_new(iso_path, False, rr_name)
        elif rr_name is not None and not self.rr:
            raise ModelRefuse('rr name on non-RR image')
        if joliet_path is not None:
            self._check_jol_new(joliet_path)
        if udf_path is not None:
            self._check_udf_new(udf_path)
        ln = len(content_bytes(content))
        if ln > 0xffffffff and self.cfg['level'] < 3:
            raise ModelRefuse('too big')
        bid = self.next_bid
        self.next_bid += 1
        self.blobs[bid] = {'content': content, 'bit': False}
        if iso_path is not None:
            self.iso[iso_path] = {'kind': 'file', 'bid': bid, 'hidden': False, 'rr': rr_name,
                                  'mode': (file_mode if file_mode is not None else 0o100444) if self.rr else None}
        if joliet_path is not None:
            self.jol[joliet_path] = {'kind': 'file', 'bid': bid, 'hidden': False}
        if udf_path is not None:
            self.udf[udf_path] = {'kind': 'file', 'bid': bid, 'hidden': False}

    def op_add_directory(self, iso_path=None, rr_name=None, joliet_path=None,
                         udf_path=None, file_mode=None):
        if iso_path is None and joliet_path is None and udf_path is None:
            raise ModelRefuse('no path')
        if file_mode is not None and not self.rr:
            raise ModelRefuse('mode on non-RR')
        if iso_path is not None:
            self._check_iso_new(iso_path, True, rr_name)
        if joliet_path is not None:
            self._check_jol_new(joliet_path)
        if udf_path is not None:
            self._check_udf_new(udf_path)
        if iso_path is not None:
            self.iso[iso_path] = {'kind': 'dir', 'hidden': False, 'rr': rr_name,
                                  'mode': (file_mode if file_mode is not None else 0o040555) if self.rr else None}
        if joliet_path is not None:
            self.jol[joliet_path] = {'kind': 'dir', 'hidden': False}
        if udf_path is not None:
            self.udf[udf_path] = {'kind': 'dir', 'hidden': False}

    def op_rm_directory(self, iso_path=None, rr_name=None, joliet_path=None, udf_path=None):
        todo = []
        for ns, p in (('iso', iso_path), ('joliet', joliet_path), ('udf', udf_path)):
            if p is None:
                continue
            t = self.tree(ns)
            if t is None:
                raise ModelRefuse('namespace not on image')
            if p == '/' or p not in t or t[p]['kind'] != 'dir':
                raise ModelRefuse('not a directory')
            if self.children(t, p):
                raise ModelRefuse('not empty')
            todo.append((t, p))
        if not todo:
            raise ModelRefuse('no path')
        for t, p in todo:
            del t[p]

    def op_rm_file(self, iso_path=None, rr_name=None, joliet_path=None, udf_path=None):
        if iso_path is not None:
            ns, p = 'iso', iso_path
        elif joliet_path is not None:
            ns, p = 'joliet', joliet_path
        elif udf_path is not None:
            ns, p = 'udf', udf_path
        else:
            raise ModelRefuse('no path')
        n = self._file_node(ns, p)
        if ns == 'udf' and n['kind'] == 'sym':
            raise ModelRefuse('udf symlink is removed with rm_hard_link')
        bid = n.get('bid')
        if bid is None:
            del self.tree(ns)[p]
            return
        if bid == 'CAT' or bid in self.boot_bids():
            raise ModelRefuse('referenced by El Torito')
        for ns2, p2 in self.names_of(bid):
            del self.tree(ns2)[p2]

    def op_rm_hard_link(self, iso_path=None, joliet_path=None, udf_path=None):
        given = [(ns, p) for ns, p in (('iso', iso_path), ('joliet', joliet_path), ('udf', udf_path)) if p]
        if len(given) != 1:
            raise ModelRefuse('exactly one path')
        ns, p = given[0]
        self._file_node(ns, p)
        del self.tree(ns)[p]

    def op_add_hard_link(self, iso_old_path=None, joliet_old_path=None, udf_old_path=None,
                         boot_catalog_old=False, iso_new_path=None, joliet_new_path=None,
                         udf_new_path=None, rr_name=None):
        olds = [(ns, p) for ns, p in (('iso', iso_old_path), ('joliet', joliet_old_path), ('udf', udf_old_path)) if p is not None]
        if len(olds) + (1 if boot_catalog_old else 0) != 1:
            raise ModelRefuse('exactly one old path')
        news = [(ns, p) for ns, p in (('iso', iso_new_path), ('joliet', joliet_new_path), ('udf', udf_new_path)) if p is not None]
        if len(news) != 1:
            raise ModelRefuse('exactly one new path')
        mode = 0o100444
        if boot_catalog_old:
            if not self.boot:
                raise ModelRefuse('no boot catalog')
            bid = 'CAT'
        else:
            ns, p = olds[0]
            n = self._file_node(ns, p)
            if n['kind'] != 'file' or n.get('bid') is None:
                raise ModelRefuse('old entry has no data')
            bid = n['bid']
            mode = n.get('mode', None) if ns == 'iso' else 'unspecified'
        ns, p = news[0]
        if ns == 'iso':
            self._check_iso_new(p, False, rr_name)
            self.iso[p] = {'kind': 'file', 'bid': bid, 'hidden': False, 'rr': rr_name,
                           'mode': (mode if not boot_catalog_old else 'unspecified') if self.rr else None}
        elif ns == 'joliet':
            self._check_jol_new(p)
            self.jol[p] = {'kind': 'file', 'bid': bid, 'hidden': False}
        else:
            self._check_udf_new(p)
            self.udf[p] = {'kind': 'file', 'bid': bid, 'hidden': False}

    def op_add_symlink(self, symlink_path=None, rr_symlink_name=None, rr_path=None,
                       joliet_path=None, udf_symlink_path=None, udf_target=None):
        if not self.rr and not self.udf:
            raise ModelRefuse('needs RR or UDF')
        rrv = (rr_symlink_name is not None) + (rr_path is not None)
        udv = (udf_symlink_path is not None) + (udf_target is not None)
        if rrv and not self.rr:
            raise ModelRefuse('RR symlink on non-RR')
        if rrv == 1 or udv == 1:
            raise ModelRefuse('incomplete pair')
        if udv and self.udf is None:
            raise ModelRefuse('UDF symlink on non-UDF')
        if rrv and symlink_path is None:
            raise ModelRefuse('symlink_path required')
        if rrv == 0 and udv == 0:
            raise ModelRefuse('nothing specified')
        if joliet_path is not None and self.jol is None:
            raise ModelRefuse('no joliet')
        if symlink_path is not None:
            if rrv:
                self._check_iso_new(symlink_path, False, rr_symlink_name)
            else:
                # UDF-only symlink with an ISO9660 placeholder; on a Rock Ridge
                # image a placeholder without rr name is not expressible
                if self.rr:
                    raise ModelRefuse('placeholder needs rr name')
                self._check_iso_new(symlink_path, False, None)
        if joliet_path is not None:
            self._check_jol_new(joliet_path)
        if udv:
            self._check_udf_new(udf_symlink_path)
        if symlink_path is not None:
            if rrv:
                self.iso[symlink_path] = {'kind': 'sym', 'bid': None, 'hidden': False,
                                          'rr': rr_symlink_name, 'target': rr_path, 'mode': 'symlink'}
            else:
                self.iso[symlink_path] = {'kind': 'file', 'bid': None, 'hidden': False, 'rr': None, 'mode': None}
        if joliet_path is not None:
            self.jol[joliet_path] = {'kind': 'file', 'bid': None, 'hidden': False}
        if udv:
            self.udf[udf_symlink_path] = {'kind': 'sym', 'bid': None, 'hidden': False, 'target': udf_target}

    def _hid(self, val, iso_path, rr_path, joliet_path):
        given = [x for x in (iso_path, rr_path, joliet_path) if x is not None]
        if len(given) != 1:
            raise ModelRefuse('exactly one path')
        if iso_path is not None:
            if iso_path not in self.iso:
                raise ModelRefuse('no such entry')
            self.iso[iso_path]['hidden'] = val
        elif rr_path is not None:
            if not self.rr:
                raise ModelRefuse('no RR')
            p = self.rr_to_iso(rr_path)
            if p is None:
                raise ModelRefuse('no such entry')
            self.iso[p]['hidden'] = val
        else:
            if self.jol is None or joliet_path not in self.jol:
                raise ModelRefuse('no such entry')
            self.jol[joliet_path]['hidden'] = val

    def op_set_hidden(self, iso_path=None, rr_path=None, joliet_path=None):
        self._hid(True, iso_path, rr_path, joliet_path)

    def op_clear_hidden(self, iso_path=None, rr_path=None, joliet_path=None):
        self._hid(False, iso_path, rr_path, joliet_path)

    def op_add_eltorito(self, bootfile_path, bootcatfile=None, rr_bootcatname=None,
                        joliet_bootcatfile=None, boot_load_size=None, platform_id=0,
                        boot_info_table=False, efi=False, media_name='noemul',
                        bootable=True, boot_load_seg=0, udf_bootcatfile=None):
        n = self._file_node('iso', bootfile_path)
        if n['kind'] != 'file' or n.get('bid') in (None, 'CAT'):
            raise ModelRefuse('boot file has no data')
        if media_name not in ('noemul', 'floppy', 'hdemul'):
            raise ModelRefuse('bad media')
        if joliet_bootcatfile and self.jol is None:
            raise ModelRefuse('no joliet')
        if udf_bootcatfile and self.udf is None:
            raise ModelRefuse('no udf')
        ent = {'bid': n['bid'], 'boot_load_size': boot_load_size, 'platform_id': platform_id,
               'platform_explicit': platform_id != 0,
               'boot_info_table': boot_info_table, 'efi': efi, 'media_name': media_name,
               'bootable': bootable, 'boot_load_seg': boot_load_seg}
        if self.boot is None:
            cat_iso = bootcatfile or '/BOOT.CAT;1'
            cat_rr = None
            if self.rr:
                cat_rr = 'boot.cat' if rr_bootcatname is None else rr_bootcatname
            self._check_iso_new(cat_iso, False, cat_rr)
            cat_j = cat_u = None
            if self.jol is not None:
                cat_j = joliet_bootcatfile or '/boot.cat'
                self._check_jol_new(cat_j)
            if self.udf is not None:
                cat_u = udf_bootcatfile or '/boot.cat'
                self._check_udf_new(cat_u)
            self.boot = {'entries': [ent]}
            self.iso[cat_iso] = {'kind': 'file', 'bid': 'CAT', 'hidden': False, 'rr': cat_rr,
                                 'mode': 'unspecified' if self.rr else None}
            if cat_j:
                self.jol[cat_j] = {'kind': 'file', 'bid': 'CAT', 'hidden': False}
            if cat_u:
                self.udf[cat_u] = {'kind': 'file', 'bid': 'CAT', 'hidden': False}
            self.blobs['CAT'] = {'content': 'CAT', 'bit': False}
        else:
            if len(self.boot['entries']) >= 32:
                raise ModelRefuse('too many sections')
            self.boot['entries'].append(ent)
        if boot_info_table:
            self.blobs[n['bid']]['bit'] = True

    def op_rm_eltorito(self):
        if not self.boot:
            raise ModelRefuse('no El Torito')
        for ns, p in self.names_of('CAT'):
            del self.tree(ns)[p]
        for e in self.boot['entries']:
            if e['bid'] in self.blobs:
                self.blobs[e['bid']]['bit'] = False      # no longer a boot file: reads back as supplied
        self.boot = None
        self.blobs.pop('CAT', None)
        self.hybrid = None       # an isohybrid MBR cannot outlive the El Torito boot file it loads

    def op_add_isohybrid(self, **kw):
        if not self.boot:
            raise ModelRefuse('needs El Torito')
        ent = self.boot['entries'][0]
        if ent['boot_load_size'] != 4:
            raise ModelRefuse('sector count must be 4')
        c = content_bytes(self.blobs[ent['bid']]['content'])
        if c[0x40:0x44] != b'\xfb\xc0\x78\x70':
            raise ModelRefuse('no signature')
        self.hybrid = dict(kw)

    def op_rm_isohybrid(self):
        self.hybrid = None

    def op_duplicate_pvd(self):
        self.dup_pvds += 1

    def op_force_consistency(self):
        pass

    def op_set_relocated_name(self, name, rr_name):
        if not self.rr:
            raise ModelRefuse('no RR')
        if self.rr_moved is not None and self.rr_moved != (name, rr_name):
            raise ModelRefuse('already set')
        if not iso_dir_legal(name, self.cfg['level']):
            raise ModelRefuse('illegal name')
        self.rr_moved = (name, rr_name)

    # pseudo operations --------------------------------------------------------
    def op_REOPEN(self):
        # Writing and opening again loses nothing the user can observe, except that the association between
        # the names of an *empty* file is not recorded on the disc (documented at rm_file): each name of a
        # zero-length content becomes a content of its own.
        self.generation += 1
        for bid, b in self.blobs.items():
            if b.get('bit'):
                # the boot info table is patched into the stored file: from now on bytes 8..63 of the content
                # are whatever the table was, also after El Torito is removed
                b['patched'] = True
        for bid in list(self.blobs):
            if bid == 'CAT' or bid in self.boot_bids():
                continue
            if len(content_bytes(self.blobs[bid]['content'])) == 0:
                names = self.names_of(bid)
                # UDF names of one (empty) file share a File Entry, which does identify them as links
                groups = [[(ns, p)] for ns, p in names if ns != 'udf']
                u = [(ns, p) for ns, p in names if ns == 'udf']
                if u:
                    groups.append(u)
                for g in groups[1:]:
                    nb = self.next_bid
                    self.next_bid += 1
                    self.blobs[nb] = dict(self.blobs[bid])
                    for ns, p in g:
                        self.tree(ns)[p]['bid'] = nb

    def op_REOPEN_SAME(self):
        self.op_REOPEN()

    def op_TICK(self):
        pass

    def op_QUERY(self):
        # read-only: look every name up and read every file, in every namespace (fills the lookup caches)
        pass

    # -- views --------------------------------------------------------------
    def rr_path_of(self, iso_path):
        if iso_path == '/':
            return '/'
        parts = []
        p = iso_path
        while p != '/':
            parts.append(self.iso[p]['rr'])
            p = _split(p)[0]
        return '/' + '/'.join(reversed(parts))

    def rr_to_iso(self, rr_path):
        for p in self.iso:
            if self.rr_path_of(p) == rr_path:
                return p
        return None

    def blob_bytes(self, bid):
        if bid is None:
            return b''
        if bid == 'CAT':
            return None
        return content_bytes(self.blobs[bid]['content'])

    def max_depth(self):
        return max(self.depth(p) for p in self.iso)

    def relocation_possible(self):
        return bool(self.rr) and self.cfg['level'] < 4 and any(
            self.depth(p) >= 8 for p, n in self.iso.items() if n['kind'] == 'dir')

    def expected(self):
        """
        The observation a correct implementation must produce (see observe.py
        for the shape).  File content is ('blob', bid) resolved by the caller.
        """
        out = {}
        iso = {}
        for p, n in self.iso.items():
            if n['kind'] == 'dir':
                iso[p] = ('dir', n['hidden'])
            else:
                iso[p] = ('file', n['hidden'], n.get('bid'))
        out['iso'] = iso
        if self.rr:
            rr = {}
            for p, n in self.iso.items():
                q = self.rr_path_of(p)
                if n['kind'] == 'dir':
                    rr[q] = ('dir', n['mode'] if p != '/' else None)
                elif n['kind'] == 'sym':
                    rr[q] = ('sym', n['target'])
                else:
                    rr[q] = ('file', n['mode'], n.get('bid'))
            out['rr'] = rr
        if self.jol is not None:
            out['joliet'] = dict((p, ('dir', n['hidden']) if n['kind'] == 'dir' else ('file', n['hidden'], n.get('bid')))
                                 for p, n in self.jol.items())
        if self.udf is not None:
            u = {}
            for p, n in self.udf.items():
                if n['kind'] == 'dir':
                    u[p] = ('dir',)
                elif n['kind'] == 'sym':
                    u[p] = ('sym', n['target'])
                else:
                    u[p] = ('file', n.get('bid'))
            out['udf'] = u
        return out

    def canon(self):
        """Canonical hashable form (for coverage reporting only)."""
        def t(tree):
            if tree is None:
                return None
            return tuple(sorted((p, tuple(sorted((k, str(v)) for k, v in n.items()))) for p, n in tree.items()))
        # blob ids are renamed in order of first appearance so that histories
        # differing only in allocation order of ids coincide
        return hashlib.sha1(repr((sorted(self.cfg.items()), t(self.iso), t(self.jol), t(self.udf),
                                  sorted((str(k), sorted(v.items())) for k, v in self.blobs.items()),
                                  repr(self.boot), repr(self.hybrid), self.dup_pvds)).encode()).hexdigest()[:16]
