"""
Driver: applies model operations to the real PyCdlib object, and observes a
PyCdlib object through its public read API.
"""
import io

from mc import env
from mc.model import content_bytes

NEW_KW = {'level': 'interchange_level', 'joliet': 'joliet', 'rr': 'rock_ridge', 'udf': 'udf', 'xa': 'xa'}


def cfg_kwargs(cfg):
    kw = {'interchange_level': cfg.get('level', 1)}
    if cfg.get('joliet'):
        kw['joliet'] = cfg['joliet']
    if cfg.get('rr'):
        kw['rock_ridge'] = cfg['rr']
    if cfg.get('udf'):
        kw['udf'] = '2.60'
    if cfg.get('xa'):
        kw['xa'] = True
    if cfg.get('vdp'):
        kw.update(cfg['vdp'])        # non-default volume descriptor parameters of new()
    return kw


def cfg_name(cfg):
    s = 'L%d' % cfg.get('level', 1)
    if cfg.get('rr'):
        s += '+RR' + cfg['rr']
    if cfg.get('joliet'):
        s += '+J%d' % cfg['joliet']
    if cfg.get('udf'):
        s += '+UDF'
    if cfg.get('xa'):
        s += '+XA'
    if cfg.get('vdp'):
        s += '+vdp'
    return s


class Impl(object):
    """A live implementation object plus whatever must stay alive with it."""

    def __init__(self, cfg, always_consistent=False, new=True):
        self.cfg = cfg
        self.always_consistent = always_consistent
        self.iso = env.PyCdlib(always_consistent=always_consistent)
        self.keep = []
        self.backing = None
        if new:
            self.iso.new(**cfg_kwargs(cfg))

    def apply(self, op):
        """Apply one operation; exceptions propagate."""
        name, kw = op[0], dict(op[1])
        if name == 'add_fp':
            data = content_bytes(kw.pop('content'))
            fp = io.BytesIO(data)
            self.keep.append(fp)
            self.iso.add_fp(fp, len(data), **kw)
        elif name == 'REOPEN':
            self.reopen()
        elif name == 'REOPEN_SAME':
            # the documented way to re-use one object: close() and open another image with it
            data = self.write()
            self.iso.close()
            fp = io.BytesIO(data)
            self.iso.open_fp(fp)
            self.backing = fp
        elif name == 'TICK':
            env.tick()
        elif name == 'QUERY':
            global LIVE
            LIVE[0] = True
            try:
                observe(self.iso, self.cfg)
            finally:
                LIVE[0] = False
        else:
            getattr(self.iso, name)(**kw)

    def write(self, blocksize=32768):
        return env.write_image(self.iso, blocksize)

    def reopen(self, data=None):
        if data is None:
            data = self.write()
        new = env.PyCdlib(always_consistent=self.always_consistent)
        fp = io.BytesIO(data)
        new.open_fp(fp)
        # the old object (and its fps) must stay alive: nothing refers to it,
        # but keep it so that id()-keyed caches cannot alias
        self.keep.append(self.iso)
        self.iso = new
        self.backing = fp
        return data


def replay(cfg, history, always_consistent=False):
    """Fresh object + the whole history.  Exceptions propagate."""
    env.reset()
    impl = Impl(cfg, always_consistent)
    for op in history:
        impl.apply(op)
    return impl


# ----------------------------------------------------------------------------
# observation through the public API


LIVE = [False]


def _read(iso, **kw):
    out = io.BytesIO()
    try:
        iso.get_file_from_iso_fp(out, **kw)
    except env.InvalidInput as e:
        # The ISO9660/Joliet placeholder of a symbolic link has no data object until the image is written and
        # reopened; on the editing object reading it is refused instead of returning b''.  Tolerated (no clause
        # speaks about it); the b'' is still compared with the model, so a real file that lost its data shows.
        if LIVE[0] and 'without data' in str(e):
            return b''
        raise
    return out.getvalue()


def udf_symlink_target(iso, rec):
    """Decode a UDF symlink's path components (ECMA-167 4/14.16) from its data."""
    from pycdlib import inode as inomod
    with inomod.InodeOpenData(rec.inode, 2048) as (fp, ln):
        data = fp.read(ln)
    comps = []
    i = 0
    while i < len(data):
        t = data[i]
        l = data[i + 1]
        ident = data[i + 4:i + 4 + l]
        i += 4 + l
        if t == 2:
            comps.append('')       # root
        elif t == 3:
            comps.append('..')
        elif t == 4:
            comps.append('.')
        elif t == 5:
            if ident[:1] == b'\x08':
                comps.append(ident[1:].decode('latin-1'))
            else:
                comps.append(ident[1:].decode('utf-16_be'))
        else:
            comps.append('?%d' % t)
    return comps


def observe(iso, cfg, with_content=True):
    """
    Observation of an image object:
      {'iso':    {path: ('dir', hidden) | ('file', hidden, bytes)},
       'rr':     {rrpath: ('dir', mode) | ('file', mode, bytes) | ('sym', target)},
       'joliet': {path: ('dir', hidden) | ('file', hidden, bytes)},
       'udf':    {path: ('dir',) | ('file', bytes) | ('sym', target-components)}}
    Uses walk + list_children + get_record + get_file_from_iso_fp only.
    """
    out = {}
    views = [('iso', 'iso_path')]
    if cfg.get('rr'):
        views.append(('rr', 'rr_path'))
    if cfg.get('joliet'):
        views.append(('joliet', 'joliet_path'))
    if cfg.get('udf'):
        views.append(('udf', 'udf_path'))
    for ns, key in views:
        tree = {}
        for dirpath, dirs, files in iso.walk(**{key: '/'}):
            base = dirpath if dirpath.endswith('/') else dirpath + '/'
            lc = [c for c in iso.list_children(**{key: dirpath}) if c is not None and not c.is_dot() and not c.is_dotdot()]
            if len(lc) != len(dirs) + len(files):
                # multi-extent files list one child per extent in list_children
                pass
            drec = iso.get_record(**{key: dirpath})
            if ns in ('iso', 'joliet'):
                tree[dirpath] = ('dir', bool(drec.file_flags & 1)) if dirpath != '/' else ('dir', False)
            elif ns == 'rr':
                mode = None
                if dirpath != '/' and drec.rock_ridge is not None:
                    mode = drec.rock_ridge.get_file_mode()
                tree[dirpath] = ('dir', mode)
            else:
                tree[dirpath] = ('dir',)
            for f in files:
                p = base + f
                if p in tree:
                    tree[p] = ('DUPLICATE',)
                    continue
                rec = iso.get_record(**{key: p})
                if ns == 'udf':
                    if rec.is_symlink():
                        tree[p] = ('sym', '/'.join(udf_symlink_target(iso, rec)))
                    else:
                        tree[p] = ('file', _read(iso, udf_path=p) if with_content else None)
                elif ns == 'rr':
                    rr = rec.rock_ridge
                    if rr.is_symlink():
                        tree[p] = ('sym', rr.symlink_path().decode('utf-8'))
                    else:
                        tree[p] = ('file', rr.get_file_mode(), _read(iso, rr_path=p) if with_content else None)
                else:
                    if rec.is_dir() or (rec.rock_ridge is not None and rec.rock_ridge.child_link_record_exists()):
                        # physical placeholder of a relocated directory (Rock Ridge CL): not a file
                        tree[p] = ('cl', bool(rec.file_flags & 1))
                        continue
                    if rec.rock_ridge is not None and rec.rock_ridge.is_symlink():
                        data = b''
                    else:
                        data = _read(iso, **{key: p}) if with_content else None
                    tree[p] = ('file', bool(rec.file_flags & 1), data)
            for d in dirs:
                p = base + d
                if p in tree:
                    tree[p] = ('DUPLICATE',)
        out[ns] = tree
    return out


def resolve_expected(model, exp=None, mask_bit=True):
    """
    Turn model.expected() blob references into bytes.  Returns the expected
    observation plus the set of (ns, path) whose content is dynamic (boot
    catalog) and the set carrying a boot info table.
    """
    exp = exp or model.expected()
    dynamic = set()
    bit = set()
    out = {}
    for ns, tree in exp.items():
        t = {}
        for p, v in tree.items():
            if v[0] == 'file':
                bid = v[-1]
                if bid == 'CAT':
                    dynamic.add((ns, p))
                    t[p] = v[:-1] + (None,)
                else:
                    if bid is not None and (model.blobs[bid]['bit'] or model.blobs[bid].get('patched')):
                        bit.add((ns, p))
                    t[p] = v[:-1] + (model.blob_bytes(bid),)
            else:
                t[p] = v
        out[ns] = t
    return out, dynamic, bit


def compare(obs, exp, dynamic, bit, skip_mode_unspecified=True):
    """Return a list of human-readable differences between observation and expectation."""
    diffs = []
    for ns in exp:
        if ns not in obs:
            diffs.append('%s: namespace missing from observation' % ns)
            continue
        o, e = obs[ns], exp[ns]
        for p in sorted(set(o) | set(e)):
            if p not in o:
                diffs.append('%s:%s missing (expected %s)' % (ns, p, _short(e[p])))
            elif p not in e:
                diffs.append('%s:%s unexpected (%s)' % (ns, p, _short(o[p])))
            else:
                ov, ev = o[p], e[p]
                if ov[0] != ev[0] or len(ov) != len(ev):
                    diffs.append('%s:%s kind %s != %s' % (ns, p, _short(ov), _short(ev)))
                    continue
                for i in range(1, len(ev)):
                    a, b = ov[i], ev[i]
                    if i == len(ev) - 1 and ev[0] == 'file':
                        if (ns, p) in dynamic:
                            if a is not None and len(a) != 2048:
                                diffs.append('%s:%s boot catalog length %d' % (ns, p, len(a)))
                            continue
                        if (ns, p) in bit and a is not None and b is not None and len(a) == len(b) and len(b) >= 64:
                            a = a[:8] + a[64:]
                            b = b[:8] + b[64:]
                        if a is None:
                            continue
                    if b == 'unspecified' or b == 'symlink':
                        continue
                    if a != b:
                        diffs.append('%s:%s field %d: %s != %s' % (ns, p, i, _short(a), _short(b)))
    return diffs


def _short(v):
    if isinstance(v, tuple):
        return '(' + ', '.join(_short(x) for x in v) + ')'
    if isinstance(v, (bytes, bytearray)):
        import hashlib
        return 'bytes[%d:%s]' % (len(v), hashlib.sha1(v).hexdigest()[:8])
    return repr(v)
