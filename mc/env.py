"""
Harness environment: imports pycdlib from /repo's working tree and owns every
source of nondeterminism (DESIGN.md section 2.2).

Nothing here touches /repo.  All seams are monkeypatches applied from the
harness process before the first pycdlib call.
"""
import os
import sys
import time as _time
import random as _random
import uuid as _uuid
import io

REPO = os.environ.get('PYCDLIB_VERIF_REPO', '/repo')
VERIF = os.path.dirname(os.path.dirname(os.path.abspath(__file__)))

os.environ['TZ'] = os.environ.get('VERIF_TZ', 'UTC')
_time.tzset()
os.environ.setdefault('PYTHONHASHSEED', '0')
os.environ['PYCDLIB_VERIF'] = '1'
sys.dont_write_bytecode = True
if sys.path[0] != REPO:
    sys.path.insert(0, REPO)

_real_time = _time.time

#: virtual clock, seconds since the epoch.  2020-01-02 03:04:05 UTC.
CLOCK0 = 1577934245.0


class _Clock(object):
    now = CLOCK0


CLOCK = _Clock()


def _vtime():
    return CLOCK.now


class _Counter(object):
    n = 0


_RND = _Counter()


def _getrandbits(k):
    _RND.n += 1
    # a fixed, counter based, full-width value
    v = (0x9E3779B97F4A7C15 * _RND.n) & ((1 << 64) - 1)
    return v & ((1 << k) - 1)


def _uuid4():
    _RND.n += 1
    return _uuid.UUID(int=((0xC2B2AE3D27D4EB4F * _RND.n) << 32 | _RND.n) & ((1 << 128) - 1))


_time.time = _vtime
_random.getrandbits = _getrandbits
_uuid.uuid4 = _uuid4

import pycdlib  # noqa: E402
from pycdlib import pycdlibexception  # noqa: E402

assert os.path.realpath(os.path.dirname(os.path.dirname(pycdlib.__file__))) == os.path.realpath(REPO), \
    'pycdlib imported from %s, not from %s' % (pycdlib.__file__, REPO)

PyCdlib = pycdlib.PyCdlib
InvalidInput = pycdlibexception.PyCdlibInvalidInput
InvalidISO = pycdlibexception.PyCdlibInvalidISO
InternalError = pycdlibexception.PyCdlibInternalError
PyCdlibException = pycdlibexception.PyCdlibException
DOCUMENTED = (InvalidInput, InvalidISO, InternalError)


def reset(clock=CLOCK0):
    """Reset every seam; called at the start of every execution."""
    CLOCK.now = clock
    _RND.n = 0


def tick(seconds=86400 + 3600 + 7 * 60 + 3):
    CLOCK.now += seconds


def real_time():
    return _real_time()


def seed():
    try:
        return int(os.environ.get('VERIF_SEED', '0'))
    except ValueError:
        return 0


def write_image(iso, blocksize=32768):
    out = io.BytesIO()
    iso.write_fp(out, blocksize=blocksize)
    return out.getvalue()


def open_image(data):
    iso = PyCdlib()
    iso.open_fp(io.BytesIO(data))
    return iso
