"""
Common machinery: sharded exhaustive runs over worker processes, result
merging, violation signatures / minimisation / known findings, replay files and
evidence files.

A property module provides
    PROP, LEVEL
    tasks(tier)            -> list of JSON-able task dicts (complete shards of the bounded space)
    run_task(task)         -> Result
    check_case(case)       -> list of violations  [{'clause','cls','msg'}]
    shrink(case)           -> iterable of strictly smaller cases (optional)
    coverage(tier, result) -> dict for the evidence file
"""
import hashlib
import re
import json
import multiprocessing
import os
import random
import sys
import time
import traceback

from mc import env

VERIF = env.VERIF


class Result(object):
    """Mergeable result of a shard."""

    def __init__(self):
        self.n = {}          # counters
        self.sets = {}       # name -> set (union on merge)
        self.viol = {}       # (clause, cls) -> {'case', 'msg', 'size'}  shortest witness wins
        self.samples = []    # a few written-out cases
        self.maxes = {}      # name -> max
        self.notes = {}      # name -> set of short strings (bounded)

    def count(self, k, d=1):
        self.n[k] = self.n.get(k, 0) + d

    def add(self, k, v):
        self.sets.setdefault(k, set()).add(v)

    def note(self, k, v, cap=40):
        s = self.notes.setdefault(k, set())
        if len(s) < cap:
            s.add(v)

    def mx(self, k, v):
        if v > self.maxes.get(k, -1):
            self.maxes[k] = v

    def violation(self, clause, cls, msg, case):
        key = (clause, cls)
        size = case_size(case)
        self.count('violating_executions')
        old = self.viol.get(key)
        ser = json.dumps(case, sort_keys=True)
        if old is None or (size, ser) < (old['size'], old['ser']):
            self.viol[key] = {'case': case, 'msg': msg, 'size': size, 'ser': ser}

    def sample(self, case, cap=3):
        if len(self.samples) < cap:
            self.samples.append(case)

    def merge(self, other):
        for k, v in other.n.items():
            self.n[k] = self.n.get(k, 0) + v
        for k, v in other.sets.items():
            self.sets.setdefault(k, set()).update(v)
        for k, v in other.notes.items():
            s = self.notes.setdefault(k, set())
            for x in sorted(v):
                if len(s) < 60:
                    s.add(x)
        for k, v in other.maxes.items():
            self.mx(k, v)
        for key, w in other.viol.items():
            old = self.viol.get(key)
            if old is None or (w['size'], w['ser']) < (old['size'], old['ser']):
                self.viol[key] = w
        for s in other.samples:
            if len(self.samples) < 3:
                self.samples.append(s)


def case_size(case):
    """Number of primitive operations (or a generic size) of a case."""
    if isinstance(case, dict) and 'steps' in case:
        n = sum(len(s) for s in case['steps'])
        for k in ('devs', 'faults', 'script'):
            if k in case and isinstance(case[k], list):
                n += len(case[k])
        return n
    if isinstance(case, dict) and 'size' in case:
        return case['size']
    return len(json.dumps(case))


def h8(*parts):
    m = hashlib.blake2b(digest_size=8)
    for p in parts:
        if isinstance(p, str):
            p = p.encode()
        m.update(p)
        m.update(b'\x00')
    return int.from_bytes(m.digest(), 'big')


# ----------------------------------------------------------------------------
# pool

_MOD = None


def _init(modname):
    global _MOD
    _MOD = __import__('mc.props.' + modname, fromlist=['x'])
    import gc
    gc.freeze()


def _work(task):
    try:
        r = _MOD.run_task(task)
        return ('ok', task, r)
    except BaseException:
        return ('err', task, traceback.format_exc())


def nproc():
    try:
        return int(os.environ.get('VERIF_JOBS', '0')) or min(16, os.cpu_count() or 4)
    except ValueError:
        return 16


def run_tasks(modname, tasks, progress=True):
    """Run all shards; VERIF_SEED only rotates the order shards are handed out."""
    tasks = list(tasks)
    rnd = random.Random(env.seed())
    rnd.shuffle(tasks)
    total = Result()
    t0 = time.time()
    errs = []
    n = nproc()
    if n <= 1 or len(tasks) <= 1:
        _init(modname)
        it = (_work(t) for t in tasks)
        pool = None
    else:
        ctx = multiprocessing.get_context('fork')
        pool = ctx.Pool(n, initializer=_init, initargs=(modname,), maxtasksperchild=200)
        it = pool.imap_unordered(_work, tasks, chunksize=1)
    done = 0
    last = t0
    try:
        for status, task, r in it:
            done += 1
            if status == 'err':
                errs.append((task, r))
            else:
                total.merge(r)
            if progress and time.time() - last > 30:
                last = time.time()
                sys.stderr.write('  [%s] %d/%d shards, %.0fs\n' % (modname, done, len(tasks), last - t0))
    finally:
        if pool is not None:
            pool.close()
            pool.join()
    if errs:
        sys.stderr.write('HARNESS ERROR in %d shard(s); first:\n%s\n%s\n' % (len(errs), json.dumps(errs[0][0])[:500], errs[0][1]))
        raise SystemExit(2)
    total.n['shards'] = len(tasks)
    return total


# ----------------------------------------------------------------------------
# violations


def load_known():
    p = os.path.join(VERIF, 'known_findings.json')
    if not os.path.exists(p):
        return {'findings': [], 'fixed': []}
    with open(p) as f:
        return json.load(f)


def default_shrink(case):
    """Remove one step; then one primitive operation inside a multi-operation step."""
    if not (isinstance(case, dict) and 'steps' in case):
        return
    steps = case['steps']
    for i in range(len(steps)):
        c = dict(case)
        c['steps'] = steps[:i] + steps[i + 1:]
        yield c
    for i, s in enumerate(steps):
        if len(s) > 1:
            # halves first, then single operations
            for part in (s[:len(s) // 2], s[len(s) // 2:]):
                c = dict(case)
                c['steps'] = steps[:i] + [part] + steps[i + 1:]
                yield c
            if len(s) <= 24:
                for j in range(len(s)):
                    c = dict(case)
                    c['steps'] = steps[:i] + [s[:j] + s[j + 1:]] + steps[i + 1:]
                    yield c


def minimise(mod, case, key, budget=400):
    shrink = getattr(mod, 'shrink', default_shrink)
    improved = True
    while improved and budget > 0:
        improved = False
        for c in shrink(case):
            budget -= 1
            if budget <= 0:
                break
            try:
                vs = mod.check_case(c)
            except Exception:
                continue
            if any((v['clause'], v['cls']) == key for v in vs):
                case = c
                improved = True
                break
    return case


def shape(case):
    """The op-kind shape of a history-like case (part of the signature)."""
    if isinstance(case, dict) and 'steps' in case:
        out = []
        for s in case['steps']:
            for op in s[:4]:
                out.append(op[0] + '(' + ','.join(sorted(k for k in op[1] if k != 'content')) + ')')
            if len(s) > 4:
                out.append('...x%d' % len(s))
        extra = ''
        for k in ('devs', 'faults'):
            if case.get(k):
                extra += ' %s=%s' % (k, json.dumps(case[k], sort_keys=True)[:200])
        return ' ; '.join(out) + extra
    if isinstance(case, dict) and 'big' in case:
        return 'big:' + case['big']
    if isinstance(case, dict) and 'shape' in case:
        return case['shape']
    return ''


def finish(mod, tier, result, t0, coverage, assumptions=None):
    """
    Triage the violations of a completed run against known_findings.json, write
    replay files and the evidence file, print the verdict lines, return the exit code.
    """
    prop = mod.PROP
    known = load_known()
    listed = [k for k in known.get('findings', []) if k['property'] == prop]
    new = []
    seen_known = {}
    for key in sorted(result.viol):
        w = result.viol[key]
        case = w['case']
        # determinism: the witness must reproduce, twice, before it is believed
        obs = []
        for _ in range(2):
            try:
                vs = mod.check_case(case)
            except Exception:
                vs = [{'clause': 'harness', 'cls': 'exception', 'msg': traceback.format_exc()}]
            obs.append(sorted((v['clause'], v['cls']) for v in vs))
        if obs[0] != obs[1] or key not in [tuple(x) for x in obs[0]]:
            sys.stderr.write('HARNESS ERROR: witness for %s does not replay deterministically: %s vs %s\n%s\n' % (key, obs[0], obs[1], vs[0]['msg'] if vs else ''))
            return 2
        if getattr(mod, 'MINIMISE', True):
            case = minimise(mod, case, key)
        sig = {'clause': key[0], 'cls': key[1], 'shape': shape(case)}
        match = None
        for k in listed:
            if k.get('clause', sig['clause']) != sig['clause']:
                continue
            if 'cls' in k and k['cls'] != sig['cls']:
                continue
            if 'cls_regex' in k and not re.search(k['cls_regex'], sig['cls']):
                continue
            if 'shape' in k and k['shape'] != sig['shape']:
                continue
            if 'shape_regex' in k and not re.search(k['shape_regex'], sig['shape']):
                continue
            match = k
            break
        if match is not None:
            seen_known[match['id']] = match
            continue
        msg = w['msg']
        try:
            vs = mod.check_case(case)
            for v in vs:
                if (v['clause'], v['cls']) == key:
                    msg = v['msg']
        except Exception:
            pass
        new.append((sig, case, msg))
    for kid in sorted(seen_known):
        print('KNOWN-FINDING: property=%s %s' % (prop, seen_known[kid]['what']))
    rc = 0
    rdir = os.path.join(os.environ.get('VERIF_REPLAY_DIR', os.path.join(VERIF, 'replays')), prop)
    for sig, case, msg in new:
        os.makedirs(rdir, exist_ok=True)
        body = {'property': prop, 'signature': sig, 'case': case, 'message': msg}
        sha = hashlib.sha1(json.dumps(body, sort_keys=True).encode()).hexdigest()[:12]
        path = os.path.join(rdir, sha + '.json')
        with open(path, 'w') as f:
            json.dump(body, f, indent=1, sort_keys=True)
        print('VIOLATION property=%s replay=%s' % (prop, path))
        print('  clause=%s class=%s' % (sig['clause'], sig['cls']))
        print('  shape: %s' % sig['shape'][:300])
        print('  %s' % msg[:600].replace('\n', '\n  '))
        rc = 1
    cov = dict(coverage)
    cov.setdefault('samples', result.samples[:3] or [{'note': 'no sample recorded'}])
    cov['counters'] = dict(sorted(result.n.items()))
    cov['distinct'] = dict((k, len(v)) for k, v in sorted(result.sets.items()))
    cov['maxima'] = dict(sorted(result.maxes.items()))
    cov['notes'] = dict((k, sorted(v)[:40]) for k, v in sorted(result.notes.items()))
    cov['known_findings_reproduced'] = sorted(seen_known)
    ev = {
        'property_id': prop,
        'tier': tier,
        'seed': env.seed(),
        'level': mod.LEVEL,
        'coverage': cov,
        'assumptions': assumptions or getattr(mod, 'ASSUMPTIONS', []),
        'wall_s': round(env.real_time() - t0, 2),
        'violations': len(new),
    }
    if not os.environ.get('VERIF_NO_EVIDENCE'):
        os.makedirs(os.path.join(VERIF, 'evidence'), exist_ok=True)
        with open(os.path.join(VERIF, 'evidence', prop + '.json'), 'w') as f:
            json.dump(ev, f, indent=1, sort_keys=True, default=str)
    print('%s tier=%s level=%s wall=%.1fs %s violations=%d known=%d' % (
        prop, tier, mod.LEVEL, ev['wall_s'],
        ' '.join('%s=%s' % (k, cov[k]) for k in ('states', 'transitions', 'traces_validated_against_impl', 'evaluations', 'distinct_nontrivial', 'exhaustive') if k in cov),
        len(new), len(seen_known)))
    return rc


def replay_file(mod, path):
    with open(path) as f:
        body = json.load(f)
    case = body['case']
    vs = mod.check_case(case)
    want = body.get('signature', {})
    hit = [v for v in vs if not want or (v['clause'] == want.get('clause') and v['cls'] == want.get('cls'))]
    for v in vs:
        print('replay: clause=%s class=%s\n  %s' % (v['clause'], v['cls'], v['msg'][:1000]))
    if hit:
        print('VIOLATION property=%s replay=%s' % (mod.PROP, path))
        return 1
    print('replay: no violation reproduced for %s' % path)
    return 0


def main(mod, argv=None):
    import argparse
    ap = argparse.ArgumentParser()
    ap.add_argument('--tier', default=os.environ.get('VERIF_TIER', 'quick'), choices=['quick', 'thorough'])
    ap.add_argument('--replay')
    args = ap.parse_args(argv)
    if args.replay:
        return replay_file(mod, args.replay)
    t0 = env.real_time()
    tasks = mod.tasks(args.tier)
    result = run_tasks(mod.__name__.split('.')[-1], tasks)
    cov = mod.coverage(args.tier, result)
    return finish(mod, args.tier, result, t0, cov)
