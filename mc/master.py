"""
MASTER-ENUM: the shared history enumerator.  A property chooses an alphabet, a
bound and a list of oracles; every enumerated history is executed on the real
implementation, mastered, and handed to the oracles.
"""
import hashlib

from mc import env, explore, ops
from mc.driver import cfg_name, observe, resolve_expected, compare
from mc.framework import Result, h8
from mc.model import Model


class Ctx(object):
    """Everything an oracle may want about one executed history."""

    def __init__(self, cfg, steps, model, impl):
        self.cfg = cfg
        self.steps = steps
        self.model = model
        self.impl = impl
        self.image = None
        self._reopened = None
        self._obs = None
        self._decoded = {}

    def reopened(self):
        if self._reopened is None:
            self._reopened = env.open_image(self.image)
        return self._reopened

    def obs(self):
        if self._obs is None:
            self._obs = observe(self.reopened(), self.cfg)
        return self._obs


def evaluate(case, oracles, res=None, model=None, count=True):
    """
    Execute one history and apply the oracles.  Returns (status, violations)
    with status in 'ok' | 'refused' | 'crash' | 'violation'.
    """
    cfg, steps = case['cfg'], case['steps']
    viols = []
    if model is None:
        model = explore.model_of(cfg, steps)
    impl, info = explore.run_history(cfg, steps, case.get('always_consistent', False))
    if impl is None:
        if info['at'] == len(steps) - 1 or not count:
            if res is not None:
                if info['refused']:
                    res.count('unexpected_refusals')
                    res.note('refusal_messages', '%s: %s' % (info['op'][0], str(info['exc'])[:80]))
                else:
                    res.count('edit_crashes')
                    res.note('edit_crash_sites', '%s %s: %s' % (explore.exc_site(info['exc']) + (info['op'][0],)))
        return ('refused' if info['refused'] else 'crash'), viols, info
    ctx = Ctx(cfg, steps, model, impl)
    try:
        from mc.vdev import RecFile
        sink = RecFile()
        impl.iso.write_fp(sink)
        ctx.image = sink.getvalue()
        ctx.writelog = sink.writes
    except Exception as e:
        t, site = explore.exc_site(e)
        viols.append({'clause': 'write_fp succeeds', 'cls': '%s@%s' % (t, site),
                      'msg': 'write_fp raised %s: %s' % (t, str(e)[:200])})
        return 'violation', viols, None
    for orc in oracles:
        try:
            vs = orc(ctx, res)
        except Exception as e:
            t, site = explore.exc_site(e)
            import traceback
            vs = [{'clause': orc.__name__ + ' runs', 'cls': '%s@%s' % (t, site),
                   'msg': 'oracle %s raised %s: %s\n%s' % (orc.__name__, t, str(e)[:200], traceback.format_exc()[-1500:])}]
        viols.extend(vs or [])
    if res is not None and count:
        res.count('executions')
        res.count('transitions', len(explore.flat(steps)))
        res.add('images', h8(mask_times(ctx.image)))
        res.add('model_states', model.canon())
        res.add('states', h8(model.canon(), mask_times(ctx.image)))
        res.mx('max_image_bytes', len(ctx.image))
    return ('violation' if viols else 'ok'), viols, None


def mask_times(img):
    """Digest input for state counting only (virtual clock is frozen, so no masking is needed)."""
    return hashlib.blake2b(img, digest_size=16).digest()


def crash_violation(info):
    """An edit that the reference model accepts raised something other than the invalid-input error."""
    t, site = explore.exc_site(info['exc'])
    return ('an edit the reference model accepts is carried out, or refused with the invalid-input error', '%s: %s@%s' % (info['op'][0], t, site),
            '%s raised %s: %s' % (info['op'], t, str(info['exc'])[:200]))


def make_visit(oracles, cut_on_violation=True):
    def visit(cfg, steps, model, res):
        case = {'cfg': cfg, 'steps': steps}
        status, viols, info = evaluate(case, oracles, res, model)
        for v in viols:
            res.violation(v['clause'], v['cls'], v['msg'], case)
        if status == 'ok':
            res.sample(case)
        if status == 'crash':
            res.violation(*crash_violation(info), case=case)
        if status in ('refused', 'crash'):
            return False
        if status == 'violation' and cut_on_violation:
            # the subtree below a violating node would re-report the same defect
            res.count('cut_below_violation')
            return False
        return True
    return visit


def make_tasks(cfgs, profile, depth, k):
    """Shards: per configuration one 'shallow' task and one task per length-k prefix."""
    tasks = []
    for cfg in cfgs:
        alpha = lambda m, p=profile: ops.sigma1(m, p)
        kk = min(k, depth)
        shallow, roots = explore.shards(cfg, alpha, kk)
        tasks.append({'cfg': cfg, 'profile': profile, 'depth': depth, 'shallow': shallow})
        for r in roots:
            tasks.append({'cfg': cfg, 'profile': profile, 'depth': depth, 'root': r})
    return tasks


def make_alpha_tasks(cfgs, name, alpha, depth, k):
    tasks = []
    for cfg in cfgs:
        kk = min(k, depth)
        shallow, roots = explore.shards(cfg, alpha, kk)
        tasks.append({'cfg': cfg, 'profile': name, 'alpha': name, 'depth': depth, 'shallow': shallow})
        for r in roots:
            tasks.append({'cfg': cfg, 'profile': name, 'alpha': name, 'depth': depth, 'root': r})
    return tasks


def make_reopen_tasks(cfgs, depth_after, profile='reopen'):
    """For each configuration and each base history of ops.reopen_bases: base . REOPEN . (every history of depth <= depth_after)."""
    tasks = []
    for cfg in cfgs:
        for name, base in ops.reopen_bases(cfg):
            root = base + [[['REOPEN', {}]]]
            alpha = lambda m, p=profile: ops.sigma1(m, p)
            m = explore.model_of(cfg, root)
            first = alpha(m)
            tasks.append({'cfg': cfg, 'profile': profile, 'depth': len(root), 'shallow': [root], 'base': name})
            for step, m2 in first:
                tasks.append({'cfg': cfg, 'profile': profile, 'depth': len(root) + depth_after, 'root': root + [step], 'base': name})
    return tasks


def make_chain_tasks(cfgs, tier):
    tasks = []
    for cfg in cfgs:
        for item in ops.chains_for(cfg, tier):
            name, chain = item[0], item[1]
            tasks.append({'cfg': cfg, 'chain': name, 'ops': chain, 'profile': 'chain', 'depth': len(chain), 'start': item[2] if len(item) > 2 else 1})
    return tasks


def run_chain(task, oracles, res):
    cfg = task['cfg']
    chain = task['ops']
    res.add('chains', '%s/%s' % (cfg_name(cfg), task['chain']))
    bad = 0
    for i in range(task.get('start', 1), len(chain) + 1):
        steps = [[op] for op in chain[:i]]
        case = {'cfg': cfg, 'steps': steps}
        status, viols, info = evaluate(case, oracles, res, count=True)
        res.count('chain_prefixes')
        for v in viols:
            res.violation(v['clause'], v['cls'], v['msg'], case)
        if status == 'crash':
            res.violation(*crash_violation(info), case=case)
        if status in ('refused', 'crash'):
            res.count('chain_cut')
            res.note('chain_cut_at', '%s/%s op %d %s: %s' % (cfg_name(cfg), task['chain'], i, info['op'][0], str(info['exc'])[:60]))
            break
        if status == 'violation':
            bad += 1
            if bad >= 3:
                break


def run_task(task, oracles, alphabet=None):
    res = Result()
    cfg = task['cfg']
    if 'chain' in task:
        run_chain(task, oracles, res)
        return res
    profile = task['profile']
    alpha = alphabet or (lambda m: ops.sigma1(m, profile))
    visit = make_visit(oracles)
    res.add('configs', cfg_name(cfg))
    if 'shallow' in task:
        for steps in task['shallow']:
            visit(cfg, steps, explore.model_of(cfg, steps), res)
    else:
        explore.dfs(cfg, task['root'], task['depth'], alpha, visit, res)
    res.mx('depth', task['depth'])
    return res


# ----------------------------------------------------------------------------
# oracle: C01, pycdlib reads back what the model says


def oracle_roundtrip(ctx, res):
    try:
        obs = ctx.obs()
    except Exception as e:
        t, site = explore.exc_site(e)
        return [{'clause': 'written image opens and reads', 'cls': '%s@%s' % (t, site),
                 'msg': 'open/walk/read of the written image raised %s: %s' % (t, str(e)[:300])}]
    exp, dyn, bit = resolve_expected(ctx.model)
    if ctx.model.relocation_possible():
        # the physical ISO9660 view of relocated directories is an implementation artefact; the relocation
        # directory itself is the one extra entry the Rock Ridge view may show
        exp.pop('iso', None)
        moved = '/' + (ctx.model.rr_moved[1] if ctx.model.rr_moved else 'rr_moved')
        if 'rr' in obs and moved in obs['rr'] and moved not in exp.get('rr', {}) and obs['rr'][moved][0] == 'dir':
            obs = dict(obs)
            obs['rr'] = dict((p, v) for p, v in obs['rr'].items() if p != moved)
    diffs = compare(obs, exp, dyn, bit)
    if diffs:
        cls = diffs[0].split(' ')[0].split(':')[0] + ':' + ' '.join(diffs[0].split(' ')[1:3])
        return [{'clause': 'reopened image shows exactly the edits', 'cls': cls, 'msg': '; '.join(diffs[:8])}]
    return []


def oracle_live(ctx, res):
    """
    The object that made the edits (not a reopened copy) answers walk / list_children / get_record /
    get_file_from_iso_fp in every namespace exactly as the reference model predicts: removed names are gone,
    re-added names read their new content.  Observed after write_fp, so the observation cannot influence the image.
    """
    from mc import driver
    try:
        driver.LIVE[0] = True
        try:
            obs = observe(ctx.impl.iso, ctx.cfg)
        finally:
            driver.LIVE[0] = False
    except Exception as e:
        t, site = explore.exc_site(e)
        return [{'clause': 'the editing object can be walked and read', 'cls': '%s@%s' % (t, site),
                 'msg': 'walk/read of the live object raised %s: %s' % (t, str(e)[:300])}]
    exp, dyn, bit = resolve_expected(ctx.model)
    if ctx.model.relocation_possible():
        exp.pop('iso', None)
        moved = '/' + (ctx.model.rr_moved[1] if ctx.model.rr_moved else 'rr_moved')
        if 'rr' in obs and moved in obs['rr'] and moved not in exp.get('rr', {}) and obs['rr'][moved][0] == 'dir':
            obs = dict(obs)
            obs['rr'] = dict((p, v) for p, v in obs['rr'].items() if p != moved)
    diffs = compare(obs, exp, dyn, bit)
    if diffs:
        cls = diffs[0].split(' ')[0].split(':')[0] + ':' + ' '.join(diffs[0].split(' ')[1:3])
        return [{'clause': 'the editing object shows exactly the edits', 'cls': 'live ' + cls, 'msg': '; '.join(diffs[:8])}]
    # names that existed at some earlier point of the history and were removed must no longer resolve
    out = []
    if not ctx.model.relocation_possible():
        from mc.model import Model
        ever = {}
        m = Model(ctx.cfg)
        for st in ctx.steps:
            for op in st:
                m.apply(op)
            for ns, tree in m.expected().items():
                ever.setdefault(ns, set()).update(tree)
        now = ctx.model.expected()
        keys = {'iso': 'iso_path', 'rr': 'rr_path', 'joliet': 'joliet_path', 'udf': 'udf_path'}
        for ns in sorted(ever):
            for p in sorted(ever[ns] - set(now.get(ns, ()))):
                try:
                    rec = ctx.impl.iso.get_record(**{keys[ns]: p})
                except env.InvalidInput:
                    continue
                except Exception as e:
                    t, site = explore.exc_site(e)
                    out.append({'clause': 'a removed name no longer resolves', 'cls': 'live %s lookup %s@%s' % (ns, t, site), 'msg': '%s:%s: %s' % (ns, p, e)})
                    continue
                out.append({'clause': 'a removed name no longer resolves', 'cls': 'live %s lookup succeeds' % ns,
                            'msg': 'get_record(%s=%r) still returns a record after the name was removed' % (keys[ns], p)})
                # and once it has been looked up, a re-added name must not read the old content (lookup caches)
    return out


# ----------------------------------------------------------------------------
# oracle: C05, re-mastering is a fixpoint


def vd_mod_date_ranges(img):
    """Byte ranges of the volume modification date (ECMA-119 8.4.27) of every PVD/SVD."""
    out = []
    sec = 16
    while (sec + 1) * 2048 <= len(img):
        d = img[sec * 2048:(sec + 1) * 2048]
        if d[1:6] != b'CD001':
            break
        if d[0] == 255:
            break
        if d[0] in (1, 2):
            out.append((sec * 2048 + 830, sec * 2048 + 847))
        sec += 1
    return out


def masked(img):
    b = bytearray(img)
    for a, e in vd_mod_date_ranges(img):
        b[a:e] = b'\x00' * (e - a)
    return bytes(b)


def first_diff(a, b):
    n = min(len(a), len(b))
    for i in range(0, n, 2048):
        if a[i:i + 2048] != b[i:i + 2048]:
            for j in range(i, min(i + 2048, n)):
                if a[j] != b[j]:
                    return j
    return n if len(a) != len(b) else -1


def describe_diff(a, b):
    if len(a) != len(b):
        return 'lengths differ: %d vs %d (first differing byte %d)' % (len(a), len(b), first_diff(a, b))
    j = first_diff(a, b)
    cnt = 0
    secs = set()
    for i in range(0, len(a), 2048):
        if a[i:i + 2048] != b[i:i + 2048]:
            secs.add(i // 2048)
    return 'first differing byte %d (sector %d offset %d): %s vs %s; differing sectors %s' % (
        j, j // 2048, j % 2048, a[j:j + 8].hex(), b[j:j + 8].hex(), sorted(secs)[:12])


def oracle_fixpoint(ctx, res):
    img1 = ctx.image
    out = []
    prev = img1
    for gen in (2, 3):
        env.tick()
        try:
            iso = env.open_image(prev)
            nxt = env.write_image(iso)
        except Exception as e:
            t, site = explore.exc_site(e)
            return [{'clause': 'image re-masters (generation %d)' % gen, 'cls': '%s@%s' % (t, site),
                     'msg': 'open+write of generation %d raised %s: %s' % (gen - 1, t, str(e)[:300])}]
        if masked(nxt) != masked(prev):
            j = first_diff(masked(nxt), masked(prev))
            where = 'len' if len(nxt) != len(prev) else region_name(prev, j)
            return [{'clause': 'generation %d equals generation %d' % (gen, gen - 1), 'cls': where,
                     'msg': describe_diff(masked(prev), masked(nxt))}]
        prev = nxt
    return out


def region_name(img, off):
    """Coarse, decoder-free name of the region a byte offset falls in (signature class)."""
    sec = off // 2048
    if sec < 16:
        return 'system area'
    d = img[sec * 2048:(sec + 1) * 2048]
    if d[1:6] == b'CD001':
        return 'vd type %d @%d' % (d[0], off % 2048)
    if d[1:6] in (b'BEA01', b'NSR02', b'NSR03', b'TEA01', b'BOOT2'):
        return 'vrs'
    import struct
    tag = struct.unpack_from('<H', d, 0)[0]
    if tag in (1, 2, 3, 4, 5, 6, 7, 8, 9, 256, 257, 258, 259, 260, 261, 262, 263, 264, 265, 266) and sec >= 32 and d[5] == 0 and d[2] in (2, 3):
        return 'udf tag %d @%d' % (tag, off % 2048)
    return 'sector +%d' % (off % 2048) if False else 'other @%d' % (off % 2048 if off % 2048 < 64 else 64)
