"""
Multi-gigabyte files on virtual devices (DESIGN.md 3.5): a fixed list of histories with files around the
0xfffff800 directory-record limit and beyond 4 GiB, mastered into a SparseSink and judged by the API and by the
independent decoders (through VirtualBytes).  Not an exhaustive alphabet - the evidence says so.
"""
import io

from mc import env, explore
from mc.driver import cfg_kwargs, cfg_name
from mc.readers import r119, r167
from mc import vdev

SECTOR = 2048
LIMIT = 0xfffff800
SIZES = {'lim-1': LIMIT - 1, 'lim': LIMIT, 'lim+1': LIMIT + 1, '4g+2049': (4 << 30) + 2049, '2lim+5': 2 * LIMIT + 5}


class VerifySink(io.RawIOBase):
    """Receives an extracted file and checks it against the pattern of a source (page headers + spot bytes)."""

    def __init__(self, src_id, total):
        io.RawIOBase.__init__(self)
        self.src_id, self.total, self.pos, self.bad = src_id, total, 0, None
        self.mode = 'wb'

    def writable(self):
        return True

    def write(self, b):
        b = bytes(b)
        if self.bad is None:
            n = len(b)
            # compare the first and last 64 bytes and every page header inside the chunk
            for a in (0, max(0, n - 64)):
                if b[a:a + 64] != vdev.pattern_bytes(self.src_id, self.pos + a, min(64, n - a), 1 << 62):
                    self.bad = self.pos + a
            first_page = -(-self.pos // vdev.PAGE) * vdev.PAGE
            for pg in range(first_page, self.pos + n - 16, vdev.PAGE):
                if b[pg - self.pos:pg - self.pos + 16] != vdev.pattern_bytes(self.src_id, pg, 16, 1 << 62):
                    self.bad = pg
                    break
        self.pos += len(b)
        return len(b)


def cases():
    """(name, cfg, [ops]) - ops use content keys 'BIG:<size name>' for virtual sources."""
    from mc import ops
    out = []
    for sz in ('lim-1', 'lim', 'lim+1', '4g+2049', '2lim+5'):
        out.append(('iso-' + sz, ops.mk(3), [['add_big', {'size': sz, 'iso_path': '/BIG.;1'}], ['add_small', {'iso_path': '/A.;1'}]]))
    for sz in ('lim+1', '4g+2049'):
        c = ops.mk(3, joliet=3, udf=True)
        out.append(('all-' + sz, c, [['add_small', {'iso_path': '/A.;1', 'joliet_path': '/a', 'udf_path': '/a'}],
                                     ['add_big', {'size': sz, 'iso_path': '/BIG.;1', 'joliet_path': '/big', 'udf_path': '/big'}],
                                     ['add_small', {'iso_path': '/Z.;1', 'joliet_path': '/z', 'udf_path': '/z'}]]))
        c = ops.mk(3, rr='1.09', udf=True)
        out.append(('rr-udf-' + sz, c, [['add_big', {'size': sz, 'iso_path': '/BIG.;1', 'rr_name': 'big', 'udf_path': '/big'}]]))
    c = ops.mk(3, udf=True)
    out.append(('udf-only-4g', c, [['add_big', {'size': '4g+2049', 'udf_path': '/big'}], ['add_small', {'udf_path': '/a'}]]))
    out.append(('udf-only-2lim+5', c, [['add_small', {'udf_path': '/a'}], ['add_big', {'size': '2lim+5', 'udf_path': '/big'}], ['add_small', {'udf_path': '/z'}]]))
    out.append(('udf-only-link', c, [['add_big', {'size': 'lim+1', 'udf_path': '/big'}], ['add_hard_link', {'udf_old_path': '/big', 'udf_new_path': '/big2'}]]))
    out.append(('add-rm-add', ops.mk(3, joliet=3), [['add_big', {'size': '4g+2049', 'iso_path': '/BIG.;1', 'joliet_path': '/big'}],
                                                    ['rm_file', {'iso_path': '/BIG.;1'}], ['add_small', {'iso_path': '/A.;1', 'joliet_path': '/a'}]]))
    out.append(('link', ops.mk(3, joliet=3), [['add_big', {'size': 'lim+1', 'iso_path': '/BIG.;1'}],
                                              ['add_hard_link', {'iso_old_path': '/BIG.;1', 'joliet_new_path': '/big'}]]))
    out.append(('level1-refused', ops.mk(1), [['add_big', {'size': '4g+2049', 'iso_path': '/BIG.;1'}]]))
    # second generation (C02) and parse . write fixpoint (C05): REOPEN = write to a SparseSink, open it in a fresh object;
    # the big file's bytes are then carried over from the first image
    for sz in ('lim+1', '4g+2049'):
        out.append(('gen2-iso-' + sz, ops.mk(3), [['add_big', {'size': sz, 'iso_path': '/BIG.;1'}], ['add_small', {'iso_path': '/A.;1'}], ['REOPEN', {}],
                                                   ['rm_file', {'iso_path': '/A.;1'}], ['add_small', {'iso_path': '/B.;1'}]]))
    out.append(('gen2-joliet-rm-big', ops.mk(3, joliet=3), [['add_big', {'size': 'lim+1', 'iso_path': '/BIG.;1', 'joliet_path': '/big'}],
                                                            ['add_small', {'iso_path': '/A.;1', 'joliet_path': '/a'}], ['REOPEN', {}],
                                                            ['add_small', {'iso_path': '/Z.;1', 'joliet_path': '/z'}], ['rm_file', {'iso_path': '/BIG.;1'}]]))
    out.append(('gen2-rr-link', ops.mk(3, rr='1.09', joliet=3), [['add_big', {'size': 'lim+1', 'iso_path': '/BIG.;1', 'rr_name': 'big'}], ['REOPEN', {}],
                                                                 ['add_hard_link', {'iso_old_path': '/BIG.;1', 'joliet_new_path': '/big'}],
                                                                 ['add_small', {'iso_path': '/A.;1', 'rr_name': 'a', 'joliet_path': '/a'}]]))
    out.append(('gen3-iso-2lim+5', ops.mk(3), [['add_small', {'iso_path': '/A.;1'}], ['add_big', {'size': '2lim+5', 'iso_path': '/BIG.;1'}], ['REOPEN', {}],
                                               ['add_small', {'iso_path': '/C.;1'}], ['REOPEN', {}], ['rm_file', {'iso_path': '/A.;1'}]]))
    out.append(('gen2-udf-lim-1', ops.mk(3, udf=True), [['add_big', {'size': 'lim-1', 'iso_path': '/BIG.;1', 'udf_path': '/big'}],
                                                        ['add_small', {'iso_path': '/A.;1', 'udf_path': '/a'}], ['REOPEN', {}],
                                                        ['rm_file', {'iso_path': '/A.;1'}], ['add_small', {'iso_path': '/B.;1', 'udf_path': '/b'}]]))
    return out


def sink_diff(a, b):
    """First difference between two SparseSinks (None when they hold the same image)."""
    if a.size != b.size:
        return 'length %d vs %d' % (a.size, b.size)

    def merged(runs):
        out = []
        for d, ln, src, so in sorted(runs):
            if out and out[-1][2] == src and out[-1][0] + out[-1][1] == d and out[-1][3] + out[-1][1] == so:
                out[-1] = (out[-1][0], out[-1][1] + ln, src, out[-1][3])
            else:
                out.append((d, ln, src, so))
        return out
    ra, rb = merged(a.runs), merged(b.runs)
    if ra != rb:
        return 'pattern runs differ: %s vs %s' % (ra[:4], rb[:4])
    pos = 0
    for d, ln, src, so in ra + [(a.size, 0, 0, 0)]:
        # everything between the runs is stored data (metadata, small files, file tails); runs themselves may have been
        # partially overwritten by stored chunks, so their first and last sectors are compared as well
        for s, e in ((pos, d), (d, min(d + SECTOR, d + ln)), (max(d, d + ln - SECTOR), d + ln)):
            while s < e:
                n = min(e - s, 1 << 20)
                x, y = a._read_at(s, n), b._read_at(s, n)
                if x != y:
                    k = next(i for i in range(len(x)) if x[i] != y[i])
                    return 'byte %d (sector %d + %d) differs' % (s + k, (s + k) // SECTOR, (s + k) % SECTOR)
                s += n
        pos = d + ln
    return None


def run_case(name, cfg, oplist):
    """Returns list of violations {'prop','clause','cls','msg'}."""
    env.reset()
    viols = []

    gen2 = any(op == 'REOPEN' for op, kw in oplist)

    def V(prop, clause, cls, msg):
        if gen2 and prop == 'C01':
            prop = 'C02'      # the same read-back clauses, now about an edited existing image
        viols.append({'prop': prop, 'clause': clause, 'cls': cls, 'msg': '%s (%s): %s' % (name, cfg_name(cfg), msg)})
    iso = env.PyCdlib()
    iso.new(**cfg_kwargs(cfg))
    keep = []
    expect = {}      # (ns, path) -> ('big', src_id, total) | ('small', bytes)
    src_id = 0
    for op, kw in oplist:
        kw = dict(kw)
        try:
            if op == 'REOPEN':
                gsink = vdev.SparseSink()
                iso.write_fp(gsink, blocksize=1 << 22)
                gsink.normalise()
                iso.close()
                iso = env.PyCdlib()
                iso.open_fp(gsink)
                keep.append(gsink)
            elif op == 'add_big':
                src_id += 1
                total = SIZES[kw.pop('size')]
                src = vdev.PatternSource(src_id, total)
                keep.append(src)
                iso.add_fp(src, total, **kw)
                for k, ns in (('iso_path', 'iso'), ('joliet_path', 'joliet'), ('udf_path', 'udf')):
                    if k in kw:
                        expect[(ns, kw[k])] = ('big', src_id, total)
            elif op == 'add_small':
                data = b'small' if not gen2 else ('small:' + sorted(kw.values())[0]).encode()      # distinct contents, so that rm_file's bookkeeping below is exact
                fp = io.BytesIO(data)
                keep.append(fp)
                iso.add_fp(fp, len(data), **kw)
                for k, ns in (('iso_path', 'iso'), ('joliet_path', 'joliet'), ('udf_path', 'udf')):
                    if k in kw:
                        expect[(ns, kw[k])] = ('small', data)
            elif op == 'rm_file':
                tgt = expect.get(('iso', kw['iso_path']))
                iso.rm_file(**kw)
                for k in [k for k, v in expect.items() if v == tgt]:
                    del expect[k]
            elif op == 'add_hard_link':
                iso.add_hard_link(**kw)
                if 'udf_new_path' in kw:
                    expect[('udf', kw['udf_new_path'])] = expect[('udf', kw['udf_old_path'])]
                else:
                    expect[('joliet', kw['joliet_new_path'])] = expect[('iso', kw['iso_old_path'])]
        except env.InvalidInput as e:
            if cfg.get('level', 1) < 3 and op == 'add_big':
                return viols      # documented: files >= 4 GiB need interchange level 3
            V('C01', 'an accepted edit sequence', 'refused ' + op, 'refused: %s' % e)
            return viols
        except Exception as e:
            t, site = explore.exc_site(e)
            V('C01', 'edit executes', '%s@%s' % (t, site), '%s raised %s: %s' % (op, t, e))
            return viols
    sink = vdev.SparseSink()
    try:
        iso.write_fp(sink, blocksize=1 << 22)
    except Exception as e:
        t, site = explore.exc_site(e)
        V('C01', 'write_fp succeeds', '%s@%s' % (t, site), 'write_fp raised %s: %s' % (t, str(e)[:200]))
        return viols
    sink.normalise()
    # ---- API read-back (C01)
    try:
        iso2 = env.PyCdlib()
        iso2.open_fp(sink)
        if gen2:
            # C05 on the virtual device: open . write of the final image reproduces it (the clock is frozen, so no field is masked)
            try:
                iso3 = env.PyCdlib()
                iso3.open_fp(sink)
                sink3 = vdev.SparseSink()
                iso3.write_fp(sink3, blocksize=1 << 22)
                sink3.normalise()
                iso3.close()
                d = sink_diff(sink, sink3)
                if d:
                    V('C05', 'open then write reproduces the image', 'big image differs', d)
            except Exception as e:
                t, site = explore.exc_site(e)
                V('C05', 'open then write reproduces the image', '%s@%s' % (t, site), 're-mastering raised %s: %s' % (t, str(e)[:200]))
        for (ns, path), exp in sorted(expect.items()):
            key = {'iso': 'iso_path', 'joliet': 'joliet_path', 'udf': 'udf_path'}[ns]
            if exp[0] == 'small':
                o = io.BytesIO()
                iso2.get_file_from_iso_fp(o, **{key: path})
                if o.getvalue() != exp[1]:
                    V('C01', 'every file reads back the data supplied', 'small file differs', '%s:%s' % (ns, path))
            else:
                vs = VerifySink(exp[1], exp[2])
                iso2.get_file_from_iso_fp(vs, blocksize=1 << 22, **{key: path})
                if vs.pos != exp[2] or vs.bad is not None:
                    V('C01', 'every file reads back the data supplied', 'big file %s' % ('length' if vs.pos != exp[2] else 'content'),
                      '%s:%s read %d bytes (expected %d), first bad offset %s' % (ns, path, vs.pos, exp[2], vs.bad))
        for ns, key in (('iso', 'iso_path'), ('joliet', 'joliet_path'), ('udf', 'udf_path')):
            if ns == 'joliet' and not cfg.get('joliet') or ns == 'udf' and not cfg.get('udf'):
                continue
            names = set()
            for dp, ds, fs in iso2.walk(**{key: '/'}):
                names.update((dp if dp.endswith('/') else dp + '/') + f for f in fs)
            want = set(p for (n2, p) in expect if n2 == ns)
            if names != want:
                V('C01', 'reopened image shows exactly the edits', ns + ' names', '%s: %s vs %s' % (ns, sorted(names), sorted(want)))
    except Exception as e:
        t, site = explore.exc_site(e)
        V('C01', 'written image opens and reads', '%s@%s' % (t, site), 'raised %s: %s' % (t, str(e)[:200]))
    # ---- independent decoders on the virtual image
    img = vdev.VirtualBytes(sink)
    vol = r119.decode(img)
    r119.check_tables(vol, img)
    r119.finish(vol, img)
    for c in vol.complaints:
        V('C03', 'well-formed ECMA-119 for an independent reader', c.split(':')[0][:40], c)

    def runs_match(extents_bytes, src, total):
        """extents_bytes: list of (byte start, byte length) in file order; must map onto source bytes 0..total."""
        pos = 0
        for start, ln in extents_bytes:
            # whole pages are runs; the tail (< one page) is stored data
            probe = [(0, min(64, ln)), (max(0, ln - 64), min(64, ln))]
            if ln > 3 * vdev.PAGE:
                probe.append((ln // 2, 64))
            for a, n in probe:
                if img[start + a:start + a + n] != vdev.pattern_bytes(src, pos + a, n, 1 << 62):
                    return 'bytes at file offset %d differ' % (pos + a)
            pos += ln
        return None if pos == total else 'extents cover %d bytes, file has %d' % (pos, total)
    for ns in ('iso', 'joliet'):
        t = vol.trees.get(ns)
        if t is None:
            continue
        for (n2, path), exp in expect.items():
            if n2 != ns:
                continue
            e = t.by_path.get(path)
            if e is None:
                V('C03', 'tree recovered independently equals the model', ns + ' missing', path)
                continue
            if exp[0] == 'big':
                for ext, ln in e.extents[:-1]:
                    if ln % SECTOR:
                        V('C03', 'multi-extent file sections', 'unaligned section', '%s section of %d bytes' % (path, ln))
                bad = runs_match([(ext * SECTOR, ln) for ext, ln in e.extents], exp[1], exp[2])
                if bad:
                    V('C03', 'file contents recovered independently equal the model', ns + ' big file', '%s: %s (sections %s)' % (path, bad, e.extents))
                if len(e.extents) != -(-exp[2] // LIMIT):
                    V('C03', 'multi-extent file sections', 'section count', '%s has %d sections for %d bytes' % (path, len(e.extents), exp[2]))
            elif r119.file_bytes(img, e) != exp[1]:
                V('C03', 'file contents recovered independently equal the model', ns + ' small file', path)
    if vol.space_size is not None and len(img) != vol.space_size * SECTOR:
        V('C04', 'image length equals the declared size', 'length', 'image %d bytes, space_size %d sectors' % (len(img), vol.space_size))
    objs = sorted(set((o.start, o.end, o.kind) for o in vol.layout if o.kind != 'system area'))
    u = r167.decode(img)
    if cfg.get('udf'):
        for c in u.complaints:
            V('C10', 'ECMA-167 structures valid for an independent reader', c.split(':')[0][:40], c)
        for (n2, path), exp in expect.items():
            if n2 != 'udf':
                continue
            n = u.tree.get(path)
            if n is None:
                V('C10', 'UDF tree recovered independently equals the model', 'missing', path)
            elif exp[0] == 'big':
                if n.info_len != exp[2]:
                    V('C10', 'information length equals what it describes', 'info length', '%s: %d vs %d' % (path, n.info_len, exp[2]))
                bad = runs_match([((u.part_start + pos) * SECTOR, ln) for pos, ln in n.extents], exp[1], exp[2])
                if bad:
                    V('C10', 'file bytes recovered independently equal the model', 'big file', '%s: %s (%d allocation descriptors)' % (path, bad, len(n.extents)))
        # a UDF file of more than 0x3ffff800 bytes has several allocation descriptors: adjacent ones of one file are one object
        ul = []
        for s, e, k, l in sorted(u.layout, key=lambda x: (x[3] if x[2] == 'file data' else '', x[0])):
            if k == 'file data' and ul and ul[-1][2] == k and ul[-1][3] == l and ul[-1][1] == s:
                ul[-1] = (ul[-1][0], e, k, l)
            else:
                ul.append((s, e, k, l))
        objs += sorted(set((s, e, k) for s, e, k, l in ul))
    # overlap (C04), sector granularity
    objs = sorted(set(objs))
    maxend, prev = -1, None
    for s, e, k in objs:
        if k == 'file data' and prev is not None and (s, e) == prev[:2]:
            continue
        if s < maxend and not (k == 'file data' and prev[2] == 'file data' and (s, e) == prev[:2]):
            V('C04', 'no two objects overlap', '%s / %s' % tuple(sorted((k, prev[2]))), '%s [%d,%d) overlaps %s [%d,%d)' % (k, s, e, prev[2], prev[0], prev[1]))
            break
        if e > maxend:
            maxend, prev = e, (s, e, k)
    return viols
