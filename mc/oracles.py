"""Oracles that use the independent decoders (C03, C04, C08, C09, C10, C11)."""
import re

from mc import decode as dec
from mc import env, explore
from mc.driver import compare, resolve_expected
from mc.readers import r119, r167, rboot, rsusp
from mc.model import content_bytes

SECTOR = 2048


def norm(msg):
    """Class of a complaint: digits and quoted strings masked."""
    m = re.sub(r"b?'[^']*'", '*', msg)
    m = re.sub(r'rec@\d+ \S+', 'rec', m)
    m = re.sub(r'(dir|file|entry|relocated|symlink) /\S*', r'\1 P', m)
    m = re.sub(r'\d+', '#', m)
    return m[:110]


def decoded(ctx):
    if getattr(ctx, '_dec', None) is None:
        d = dec.decode_iso(ctx.image)
        d.udf = r167.decode(ctx.image)
        d.boot = rboot.decode(ctx.image)
        d.obs = dec.observation(ctx.image, d)
        ctx._dec = d
    return ctx._dec


def _expected(ctx):
    if getattr(ctx, '_exp', None) is None:
        ctx._exp = resolve_expected(ctx.model)
    return ctx._exp


def _cls(diff):
    return diff.split(' ')[0].split(':')[0] + ':' + ' '.join(diff.split(' ')[1:3])


# ---------------------------------------------------------------------------- C03

def oracle_ecma119(ctx, res):
    d = decoded(ctx)
    out = []
    for c in d.vol.complaints:
        if c.startswith('joliet'):
            continue
        out.append({'clause': 'well-formed ECMA-119 for an independent reader', 'cls': norm(c), 'msg': c})
    exp, dyn, bit = _expected(ctx)
    mine = {'iso': d.obs.get('iso', {})}
    if not ctx.model.relocation_possible():
        diffs = compare(mine, {'iso': exp['iso']}, dyn, bit)
        if diffs:
            out.append({'clause': 'tree and contents recovered independently equal the model', 'cls': _cls(diffs[0]), 'msg': '; '.join(diffs[:6])})
    # ... and what the library API reports for the same image
    try:
        api = ctx.obs()
    except Exception as e:
        return out     # C01's clause
    a = {}
    mine2 = dict(mine['iso'])
    for p, v in api.get('iso', {}).items():
        if v[0] == 'cl':
            # Rock Ridge relocation placeholder: the API resolves it to the relocated directory
            mine2.pop(p, None)
            continue
        a[p] = v
    diffs = compare({'iso': mine2}, {'iso': a}, set(), set())
    if diffs:
        out.append({'clause': 'independently recovered tree equals what the library API reports', 'cls': _cls(diffs[0]), 'msg': '; '.join(diffs[:6])})
    if res is not None:
        res.count('decoded_images')
        res.count('decoded_directories', len(d.vol.trees['iso'].dirs_in_order) if 'iso' in d.vol.trees else 0)
        if len(d.vol.vds) and any(v['kind'] == 'enhanced' for v in d.vol.vds):
            res.count('images_with_enhanced_vd')
        if sum(1 for v in d.vol.vds if v['kind'] == 'pvd') > 1:
            res.count('images_with_duplicate_pvd')
        if getattr(d.vol, 'xa', False):
            res.count('images_with_xa')
        t = d.vol.trees.get('iso')
        if t is not None:
            res.mx('max_dir_sectors', max((x.length // SECTOR for x in t.dirs_in_order), default=0))
        res.mx('max_path_table_bytes', d.vol.pvd['path_table_size'] if getattr(d.vol, 'pvd', None) else 0)
    return out


# ---------------------------------------------------------------------------- C09

def oracle_joliet(ctx, res):
    if not ctx.cfg.get('joliet'):
        return []
    d = decoded(ctx)
    out = []
    for c in d.vol.complaints:
        if c.startswith('joliet'):
            out.append({'clause': 'Joliet descriptor, directories and path tables consistent', 'cls': norm(c), 'msg': c})
    if 'joliet' not in d.vol.trees:
        return [{'clause': 'Joliet tree present', 'cls': 'no SVD', 'msg': 'no Joliet supplementary descriptor found'}]
    lvl = d.vol.joliet_vd.get('joliet_level')
    if lvl != ctx.cfg['joliet']:
        out.append({'clause': 'Joliet level recorded', 'cls': 'level', 'msg': 'escape sequence says level %s, requested %s' % (lvl, ctx.cfg['joliet'])})
    exp, dyn, bit = _expected(ctx)
    diffs = compare({'joliet': d.obs['joliet']}, {'joliet': exp['joliet']}, dyn, bit)
    if diffs:
        out.append({'clause': 'independent reader recovers exactly the Joliet tree', 'cls': _cls(diffs[0]), 'msg': '; '.join(diffs[:6])})
    t = d.vol.trees['joliet']
    for p, e in t.by_path.items():
        if p != '/' and len(e.raw_name) // 2 > 64 + (0 if e.is_dir else 0):
            nm = e.raw_name.decode('utf-16_be', 'replace')
            if len(e.raw_name) // 2 > 64:
                out.append({'clause': 'no Joliet name exceeds 64 code units', 'cls': 'long name', 'msg': '%s has %d code units' % (p[:40], len(e.raw_name) // 2)})
                break
    # same data sectors as the ISO9660 link
    iso = d.vol.trees.get('iso')
    if iso is not None:
        m = ctx.model
        isobid = {}
        for p, n in m.iso.items():
            if n['kind'] == 'file' and n.get('bid') is not None:
                isobid.setdefault(n['bid'], p)
        for p, n in (m.jol or {}).items():
            if n['kind'] == 'file' and n.get('bid') in isobid and p in t.by_path and not m.relocation_possible():
                ip = isobid[n['bid']]
                if ip in iso.by_path:
                    je, ie = t.by_path[p], iso.by_path[ip]
                    if je.data_length() and [x for x in je.extents] != [x for x in ie.extents]:
                        out.append({'clause': 'Joliet file points at the same data sectors as its ISO9660 link', 'cls': 'extent',
                                    'msg': 'joliet %s %s vs iso %s %s' % (p, je.extents, ip, ie.extents)})
    if res is not None:
        res.count('joliet_images')
    return out


# ---------------------------------------------------------------------------- C08

def oracle_rockridge(ctx, res):
    if not ctx.cfg.get('rr'):
        return []
    d = decoded(ctx)
    rr = d.rr
    out = []
    if rr is None or not rr.present:
        return [{'clause': 'Rock Ridge present', 'cls': 'no SP', 'msg': 'root "." has no SP entry'}]
    for c in rr.complaints:
        out.append({'clause': 'SUSP/RRIP well formed for an independent reader', 'cls': norm(c), 'msg': c})
    want_px = 44 if ctx.cfg['rr'] == '1.12' else 36
    if rr.px_len is not None and rr.px_len != want_px:
        out.append({'clause': 'Rock Ridge version recorded', 'cls': 'PX length', 'msg': 'PX length %d for version %s' % (rr.px_len, ctx.cfg['rr'])})
    want_er = b'IEEE_P1282' if ctx.cfg['rr'] == '1.12' else b'RRIP_1991A'
    if rr.er_id is not None and rr.er_id != want_er:
        out.append({'clause': 'Rock Ridge version recorded', 'cls': 'ER id', 'msg': 'ER id %r for version %s' % (rr.er_id, ctx.cfg['rr'])})
    exp, dyn, bit = _expected(ctx)
    mine = dict(d.obs.get('rr', {}))
    if ctx.model.relocation_possible():
        moved = ctx.model.rr_moved[1] if ctx.model.rr_moved else 'rr_moved'
        extra = [p for p in mine if p not in exp['rr']]
        if extra == ['/' + moved] and mine['/' + moved][0] == 'dir':
            del mine['/' + moved]
    diffs = compare({'rr': mine}, {'rr': exp['rr']}, dyn, bit)
    if diffs:
        out.append({'clause': 'independent reader recovers name, type, mode and target of every entry', 'cls': _cls(diffs[0]), 'msg': '; '.join(diffs[:6])})
    if res is not None:
        res.count('rr_images')
        res.count('rr_continuation_areas', len(set(rr.areas)))
        if any(n.relocated for n in rr.logical.values()):
            res.count('rr_images_with_relocation')
    return out


# ---------------------------------------------------------------------------- C10

def oracle_udf(ctx, res):
    if not ctx.cfg.get('udf'):
        return []
    d = decoded(ctx)
    u = d.udf
    out = []
    if not u.present:
        return [{'clause': 'UDF bridge present', 'cls': 'no NSR', 'msg': 'no NSR descriptor in the volume recognition sequence'}]
    for c in u.complaints:
        out.append({'clause': 'ECMA-167 structures valid for an independent reader', 'cls': norm(c), 'msg': c})
    nsect = len(ctx.image) // SECTOR
    # every referenced block lies inside the partition (complaints above); the partition itself must end
    # at or before the trailing anchor.  (Unused sectors between the two are slack, reported by C04.)
    if u.part_start is not None and ctx.model.hybrid is None and u.part_start + u.part_len > nsect - 1:
        out.append({'clause': 'partition length covers exactly the partition', 'cls': 'partition end',
                    'msg': 'partition [%d,+%d) ends at %d, last sector (anchor) is %d' % (u.part_start, u.part_len, u.part_start + u.part_len, nsect - 1)})
    if res is not None and u.part_start is not None:
        res.mx('udf_partition_slack_max', nsect - 1 - (u.part_start + u.part_len))
    if u.lvid is not None and u.lvid['files'] is not None:
        if (u.lvid['files'], u.lvid['dirs']) != u.counts:
            out.append({'clause': 'integrity descriptor counts files and directories', 'cls': 'lvid counts',
                        'msg': 'LVID says %d files %d dirs, tree has %d files %d dirs' % (u.lvid['files'], u.lvid['dirs'], u.counts[0], u.counts[1])})
    exp, dyn, bit = _expected(ctx)
    mine = {}
    for p, n in u.tree.items():
        if n.kind == 'dir':
            mine[p] = ('dir',)
        elif n.kind == 'sym':
            mine[p] = ('sym', n.target)
        else:
            mine[p] = ('file', n.data)
    diffs = compare({'udf': mine}, {'udf': exp['udf']}, dyn, bit)
    if diffs:
        out.append({'clause': 'independent reader recovers exactly the UDF tree, names, targets and bytes', 'cls': _cls(diffs[0]), 'msg': '; '.join(diffs[:6])})
    if res is not None:
        res.count('udf_images')
        res.mx('max_udf_dir_bytes', max((n.info_len for n in u.tree.values() if n.kind == 'dir'), default=0))
    return out


# ---------------------------------------------------------------------------- C04

def collect_layout(ctx):
    d = decoded(ctx)
    objs = []
    for o in d.vol.layout:
        objs.append((o.start, o.end, o.kind if o.kind != 'file data' else 'file data', o.label))
    if d.rr is not None and d.rr.present:
        for s, e, w in set((s, e, '') for s, e, w in d.rr.areas):
            objs.append((s, e, 'rr continuation area', w))
    if d.udf.present:
        for s, e, k, l in d.udf.layout:
            objs.append((s, e, k, l))
    if d.boot.present:
        for s, e, k, l in d.boot.layout:
            # the catalog is also a file under its names: one object
            objs.append((s, e, 'file data', 'boot catalog'))
        for i, ent in enumerate(d.boot.entries):
            pass
    return objs


def oracle_alloc(ctx, res):
    d = decoded(ctx)
    out = []
    img = ctx.image
    vol = d.vol
    if vol.space_size is None:
        return [{'clause': 'volume size declared', 'cls': 'no pvd', 'msg': 'no PVD'}]
    limit = vol.space_size * SECTOR
    objs = collect_layout(ctx)
    # (i) no two distinct objects overlap.  Identical ranges of kind 'file data' are one object (links);
    # continuation areas live at byte granularity inside shared sectors.
    uniq = {}
    for s, e, k, l in objs:
        if e <= s:
            continue
        key = (s, e, 'file data' if k == 'file data' else k)
        uniq.setdefault(key, l)
    items = sorted(uniq.items())
    maxend = -1
    prev = None
    for (s, e, k), l in items:
        if k == 'system area':
            maxend = max(maxend, e)
            prev = ((s, e, k), l)
            continue
        if s < maxend:
            (ps, pe, pk), pl = prev
            out.append({'clause': 'no two objects overlap', 'cls': '%s / %s' % tuple(sorted((k, pk))),
                        'msg': '%s %s [%d,%d) overlaps %s %s [%d,%d)' % (k, l, s, e, pk, pl, ps, pe)})
            break
        if e > maxend:
            maxend = e
            prev = ((s, e, k), l)
    # (ii) inside the declared volume
    for (s, e, k), l in items:
        if e > limit:
            out.append({'clause': 'every object inside the declared volume size', 'cls': k,
                        'msg': '%s %s [%d,%d) beyond space_size %d sectors' % (k, l, s, e, vol.space_size)})
            break
    # (iii) image length
    if ctx.model.hybrid is None:
        if len(img) != limit:
            out.append({'clause': 'image length equals the declared size', 'cls': 'length',
                        'msg': 'image is %d bytes, space_size * 2048 = %d' % (len(img), limit)})
    else:
        if len(img) < limit:
            out.append({'clause': 'image length equals the declared size', 'cls': 'short', 'msg': 'image %d < %d' % (len(img), limit)})
    # (iv) shared iff linked
    m = ctx.model
    loc = {}     # (ns, path) -> first extent
    for ns, key in (('iso', 'iso'), ('joliet', 'joliet')):
        t = vol.trees.get(key)
        tree = m.tree(ns)
        if t is None or tree is None or (ns == 'iso' and m.relocation_possible()):
            continue
        for p, n in tree.items():
            if n['kind'] == 'file' and n.get('bid') is not None and p in t.by_path:
                e = t.by_path[p]
                if e.data_length():
                    loc[(ns, p)] = (e.extents[0][0], n['bid'])
    if d.udf.present and m.udf is not None:
        for p, n in m.udf.items():
            if n['kind'] == 'file' and n.get('bid') is not None and p in d.udf.tree:
                un = d.udf.tree[p]
                if un.extents and un.info_len:
                    loc[('udf', p)] = (d.udf.part_start + un.extents[0][0], n['bid'])
    if d.boot.present and m.boot and len(d.boot.entries) == len(m.boot['entries']):
        for i, (be, me) in enumerate(zip(d.boot.entries, m.boot['entries'])):
            loc[('boot', str(i))] = (be['rba'], me['bid'])
    if getattr(d.boot, 'catalog_sector', None) and m.boot:
        loc[('boot', 'catalog')] = (d.boot.catalog_sector, 'CAT')
    by_ext = {}
    by_bid = {}
    for k2, (ext, bid) in loc.items():
        by_ext.setdefault(ext, set()).add(bid)
        by_bid.setdefault(bid, set()).add(ext)
    for ext, bids in by_ext.items():
        if len(bids) > 1:
            who = [k2 for k2, v in loc.items() if v[0] == ext]
            out.append({'clause': 'names share data sectors only if they are links of one content', 'cls': 'unrelated share',
                        'msg': 'extent %d shared by %s (contents %s)' % (ext, who, sorted(map(str, bids)))})
            break
    for bid, exts in by_bid.items():
        if len(exts) > 1:
            who = [(k2, v[0]) for k2, v in loc.items() if v[1] == bid]
            out.append({'clause': 'links of one content share its data sectors (stored once)', 'cls': 'stored twice',
                        'msg': 'content %s stored at extents %s: %s' % (bid, sorted(exts), who)})
            break
    # (v) no byte written twice
    wl = getattr(ctx, 'writelog', None)
    if wl is not None:
        dbl = vdevmod.double_writes(wl, limit)
        allowed = []
        # the documented boot-info-table patch: 56 bytes at file start + 8
        if d.boot.present:
            for be in d.boot.entries:
                allowed.append((be['rba'] * SECTOR + 8, be['rba'] * SECTOR + 64))
        bad = [x for x in dbl if not any(a <= x[0] and x[1] <= b for a, b in allowed)]
        if bad:
            s, e = bad[0]
            out.append({'clause': 'mastering writes no byte twice', 'cls': 'sector +%d' % (s % SECTOR if s % SECTOR < 64 else 64),
                        'msg': 'bytes [%d,%d) (sector %d offset %d) written twice; %d ranges' % (s, e, s // SECTOR, s % SECTOR, len(bad))})
    if res is not None:
        res.count('layouts_checked')
        res.count('objects_checked', len(items))
        last = max((e for (s, e, k), l in items), default=0)
        res.mx('slack_sectors_max', (limit - last) // SECTOR if limit >= last else 0)
        for (s, e, k), l in items:
            res.add('object_kinds', k)
    return out


from mc import vdev as vdevmod  # noqa: E402


# ---------------------------------------------------------------------------- C11

def oracle_boot(ctx, res):
    d = decoded(ctx)
    b = d.boot
    m = ctx.model
    out = []
    if not m.boot:
        if b.present:
            out.append({'clause': 'removing El Torito removes the boot record', 'cls': 'boot record remains', 'msg': 'boot record found although the model has none'})
        return out
    if not b.present:
        return [{'clause': 'boot record at sector 17', 'cls': 'missing', 'msg': 'no El Torito boot record found'}]
    for c in b.complaints:
        out.append({'clause': 'El Torito structures valid for an independent reader', 'cls': norm(c), 'msg': c})
    ents = m.boot['entries']
    if len(ents) != len(b.entries):
        out.append({'clause': 'one catalog entry per add_eltorito', 'cls': 'entry count', 'msg': '%d entries decoded, %d added' % (len(b.entries), len(ents))})
        return out
    img = ctx.image
    iso = d.vol.trees.get('iso')
    media_code = {'noemul': (0,), 'floppy': (1, 2, 3), 'hdemul': (4,)}
    if b.platform != ents[0]['platform_id']:
        out.append({'clause': 'entries carry the requested platform', 'cls': 'validation platform', 'msg': 'validation entry platform %s, requested %s' % (b.platform, ents[0]['platform_id'])})
    for i, (be, me) in enumerate(zip(b.entries, ents)):
        data = content_bytes(m.blobs[me['bid']]['content'])
        if be['media'] not in media_code[me['media_name']]:
            out.append({'clause': 'entries carry the requested media type', 'cls': 'media', 'msg': 'entry %d media %d, requested %s' % (i, be['media'], me['media_name'])})
        if be['bootable'] != bool(me['bootable']):
            out.append({'clause': 'entries carry the requested bootable flag', 'cls': 'bootable', 'msg': 'entry %d' % i})
        want = me['boot_load_size']
        if want is None:
            want = ((len(data) + SECTOR - 1) // SECTOR) * SECTOR // 512
        if be['sector_count'] != want:
            out.append({'clause': 'entries carry the requested load size', 'cls': 'load size', 'msg': 'entry %d sector count %d, expected %d' % (i, be['sector_count'], want)})
        if be['load_seg'] != me['boot_load_seg']:
            out.append({'clause': 'entries carry the requested load segment', 'cls': 'load seg', 'msg': 'entry %d' % i})
        if i > 0 and not me['efi'] and not me.get('platform_explicit'):
            pass      # no platform requested for this section: the catalog's platform is inherited
        elif i > 0 and be['platform'] != (0xef if me['efi'] else me['platform_id']) and be['platform'] != me['platform_id']:
            out.append({'clause': 'entries carry the requested platform', 'cls': 'section platform', 'msg': 'entry %d platform %s requested %s efi=%s' % (i, be['platform'], me['platform_id'], me['efi'])})
        # load RBA = where the file's bytes start
        names = [p for ns, p in m.names_of(me['bid']) if ns == 'iso']
        if names and iso is not None and names[0] in iso.by_path and not m.relocation_possible():
            ext = iso.by_path[names[0]].extents[0][0]
            if ext != be['rba']:
                out.append({'clause': 'load RBA is the sector where the boot file starts', 'cls': 'rba', 'msg': 'entry %d RBA %d, file %s at %d' % (i, be['rba'], names[0], ext)})
        stored = img[be['rba'] * SECTOR:be['rba'] * SECTOR + len(data)]
        exp = data
        if m.blobs[me['bid']].get('patched') and not m.blobs[me['bid']]['bit']:
            exp = data[:8] + stored[8:64] + data[64:]     # patched in an earlier generation (see model.op_REOPEN)
        if m.blobs[me['bid']]['bit']:
            exp = data[:8] + stored[8:64] + data[64:]
            t = rboot.boot_info_table(stored)
            if t is not None and len(data) >= 64:
                want_t = {'pvd': 16, 'lba': be['rba'], 'len': len(data), 'csum': rboot.bit_checksum(data)}
                got_t = dict((k, t[k]) for k in want_t)
                if got_t != want_t:
                    out.append({'clause': 'boot info table as stored is correct', 'cls': 'table ' + ','.join(k for k in want_t if got_t[k] != want_t[k]),
                                'msg': 'entry %d stored table %s, expected %s' % (i, got_t, want_t)})
                # ... and as read back through the API
                try:
                    api = ctx.obs()
                    for ns, p in m.names_of(me['bid']):
                        v = api.get(ns if ns != 'iso' else 'iso', {}).get(p)
                        if v is not None and v[0] == 'file' and v[-1] is not None:
                            ta = rboot.boot_info_table(v[-1])
                            if ta is not None and dict((k, ta[k]) for k in want_t) != want_t:
                                out.append({'clause': 'boot info table as read back is correct', 'cls': 'read table ' + ns,
                                            'msg': '%s:%s read table %s expected %s' % (ns, p, dict((k, ta[k]) for k in want_t), want_t)})
                except Exception:
                    pass
        if stored != exp:
            out.append({'clause': 'the bytes at the load RBA are the boot file', 'cls': 'bytes', 'msg': 'entry %d: bytes at RBA %d differ from the boot file content' % (i, be['rba'])})
    # catalog reachable under its names with identical bytes
    cat = getattr(b, 'catalog_bytes', None)
    if cat is not None:
        for ns, p in m.names_of('CAT'):
            got = None
            if ns in ('iso', 'joliet'):
                t = d.vol.trees.get(ns)
                if t is not None and p in t.by_path and not (ns == 'iso' and m.relocation_possible()):
                    e = t.by_path[p]
                    got = r119.file_bytes(img, e)
                    if e.extents[0][0] != b.catalog_sector:
                        out.append({'clause': 'catalog reachable as a file under its names', 'cls': ns + ' extent', 'msg': '%s:%s at %d, catalog at %d' % (ns, p, e.extents[0][0], b.catalog_sector)})
            elif d.udf.present and p in d.udf.tree:
                got = d.udf.tree[p].data
            if got is not None and got != cat:
                out.append({'clause': 'catalog reachable as a file under its names', 'cls': ns + ' bytes', 'msg': '%s:%s has %d bytes differing from the catalog sector' % (ns, p, len(got))})
        try:
            api = ctx.obs()
            for ns, p in m.names_of('CAT'):
                v = api.get(ns, {}).get(p)
                if v is not None and v[-1] is not None and v[-1] != cat:
                    out.append({'clause': 'catalog reachable as a file under its names', 'cls': ns + ' api bytes', 'msg': '%s:%s API returns %d bytes differing from the catalog sector' % (ns, p, len(v[-1]))})
        except Exception:
            pass
    if res is not None:
        res.count('boot_images')
        res.mx('max_boot_entries', len(b.entries))
    return out
