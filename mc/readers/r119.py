"""
Independent ECMA-119 (ISO9660) reader.  Shares no code with pycdlib: struct only.

decode(img) -> Volume with
   .vds        list of descriptors (dicts)
   .complaints list of well-formedness complaints (strings)
   .trees      {'iso': Tree, 'joliet': Tree or absent, 'enhanced': Tree or absent}
   .layout     list of Obj(start_byte, end_byte, kind, label)  (allocation map)
"""
import struct

SECTOR = 2048


class Obj(object):
    __slots__ = ('start', 'end', 'kind', 'label')

    def __init__(self, start, end, kind, label):
        self.start, self.end, self.kind, self.label = start, end, kind, label

    def __repr__(self):
        return 'Obj(%d..%d %s %s)' % (self.start, self.end, self.kind, self.label)


class Entry(object):
    """One name in a directory (all its directory records merged for multi-extent files)."""
    __slots__ = ('name', 'raw_name', 'is_dir', 'hidden', 'extents', 'rec_offsets', 'rec_lens', 'su', 'flags',
                 'children', 'extent', 'length', 'parent', 'date', 'path', 'assoc', 'dot_su', 'dotdot_su',
                 'dot_off', 'dotdot_off')

    def __init__(self):
        self.children = None
        self.extents = []
        self.rec_offsets = []
        self.rec_lens = []
        self.parent = None

    def data_length(self):
        return sum(l for e, l in self.extents)


class Tree(object):
    def __init__(self):
        self.root = None
        self.by_path = {}      # decoded path -> Entry
        self.dirs_in_order = []


class Volume(object):
    def __init__(self):
        self.vds = []
        self.complaints = []
        self.trees = {}
        self.layout = []
        self.space_size = None

    def complain(self, msg):
        if len(self.complaints) < 200:
            self.complaints.append(msg)


def both32(buf, off):
    le, be = struct.unpack_from('<L', buf, off)[0], struct.unpack_from('>L', buf, off + 4)[0]
    return le, be


def both16(buf, off):
    le, be = struct.unpack_from('<H', buf, off)[0], struct.unpack_from('>H', buf, off + 2)[0]
    return le, be


def parse_vd(vol, img, sec):
    d = img[sec * SECTOR:(sec + 1) * SECTOR]
    vd = {'sector': sec, 'type': d[0], 'id': d[1:6], 'version': d[6], 'raw': d}
    if d[0] in (1, 2):
        def b32(name, off):
            le, be = both32(d, off)
            if le != be:
                vol.complain('VD@%d: both-endian field %s disagrees (%d / %d)' % (sec, name, le, be))
            vd[name] = le

        def b16(name, off):
            le, be = both16(d, off)
            if le != be:
                vol.complain('VD@%d: both-endian field %s disagrees (%d / %d)' % (sec, name, le, be))
            vd[name] = le
        vd['flags'] = d[7]
        vd['system_id'] = d[8:40]
        vd['volume_id'] = d[40:72]
        b32('space_size', 80)
        vd['escape'] = d[88:120]
        b16('set_size', 120)
        b16('seq_num', 124)
        b16('block_size', 128)
        b32('path_table_size', 132)
        vd['l_table'] = struct.unpack_from('<L', d, 140)[0]
        vd['opt_l_table'] = struct.unpack_from('<L', d, 144)[0]
        vd['m_table'] = struct.unpack_from('>L', d, 148)[0]
        vd['opt_m_table'] = struct.unpack_from('>L', d, 152)[0]
        vd['root_record'] = d[156:190]
        vd['file_structure_version'] = d[881]
        vd['mod_date'] = d[830:847]
        if vd['block_size'] != SECTOR:
            vol.complain('VD@%d: logical block size %d' % (sec, vd['block_size']))
        if d[0] == 2 and d[88:91] in (b'%/@', b'%/C', b'%/E'):
            vd['kind'] = 'joliet'
            vd['joliet_level'] = {b'%/@': 1, b'%/C': 2, b'%/E': 3}[d[88:91]]
        elif d[0] == 2:
            vd['kind'] = 'enhanced'
        else:
            vd['kind'] = 'pvd'
    elif d[0] == 0:
        vd['kind'] = 'boot'
        vd['boot_system_id'] = d[7:39]
    elif d[0] == 255:
        vd['kind'] = 'terminator'
    else:
        vd['kind'] = 'type%d' % d[0]
    return vd


def parse_record(vol, img, off, where):
    """Parse the directory record at byte offset off.  Returns dict or None."""
    ln = img[off]
    if ln < 34:
        vol.complain('%s: directory record at %d has length %d < 34' % (where, off, ln))
        return None
    if off % SECTOR + ln > SECTOR:
        vol.complain('%s: directory record at %d (len %d) straddles a sector boundary' % (where, off, ln))
        return None
    r = img[off:off + ln]
    rec = {'off': off, 'len': ln, 'ext_attr_len': r[1]}
    le, be = both32(r, 2)
    if le != be:
        vol.complain('%s: record at %d extent both-endian mismatch (%d/%d)' % (where, off, le, be))
    rec['extent'] = le
    le, be = both32(r, 10)
    if le != be:
        vol.complain('%s: record at %d data length both-endian mismatch (%d/%d)' % (where, off, le, be))
    rec['length'] = le
    rec['date'] = r[18:25]
    rec['flags'] = r[25]
    rec['unit'] = r[26]
    rec['gap'] = r[27]
    le, be = both16(r, 28)
    if le != be:
        vol.complain('%s: record at %d volume sequence both-endian mismatch' % (where, off))
    rec['seq'] = le
    lfi = r[32]
    if 33 + lfi > ln:
        vol.complain('%s: record at %d identifier length %d exceeds record length %d' % (where, off, lfi, ln))
        return None
    rec['fi'] = r[33:33 + lfi]
    p = 33 + lfi
    if lfi % 2 == 0:
        if p < ln and r[p] != 0:
            vol.complain('%s: record at %d pad byte after identifier is not zero' % (where, off))
        p += 1
    rec['su'] = r[p:] if p <= ln else b''
    if ln % 2 != 0:
        vol.complain('%s: record at %d has odd length %d' % (where, off, ln))
    return rec


def split_name(fi):
    """ECMA-119 7.5: name, extension, version of a file identifier (bytes)."""
    base, sep, ver = fi.partition(b';')
    if b'.' in base:
        i = base.rindex(b'.')
        nm, ext = base[:i], base[i + 1:]
    else:
        nm, ext = base, b''
    try:
        v = int(ver) if sep else 0
    except ValueError:
        v = 0
    return nm, ext, v


def sort_key_93(rec, encoding):
    """ECMA-119 9.3 ordering key of a directory record within a directory."""
    fi = rec['fi']
    if rec['flags'] & 2 or fi in (b'\x00', b'\x01'):
        return (fi,)
    return None


def cmp_93(a, b, width):
    """
    -1/0/1 comparing two file identifiers (bytes) per ECMA-119 9.3: name padded
    with spaces (or 0 for 2-byte chars), then extension, then version descending.
    """
    pad = b' ' if width == 1 else b'\x00\x20'

    def padto(x, n):
        while len(x) < n:
            x += pad
        return x
    if width == 2:
        sep_dot, sep_semi = b'\x00.', b'\x00;'
        # split on 2-byte separators at even offsets
        def split2(fi):
            units = [fi[i:i + 2] for i in range(0, len(fi), 2)]
            semi = max([i for i, u in enumerate(units) if u == sep_semi] or [-1])
            base = units[:semi] if semi >= 0 else units
            ver = units[semi + 1:] if semi >= 0 else []
            dot = max([i for i, u in enumerate(base) if u == sep_dot] or [-1])
            nm = base[:dot] if dot >= 0 else base
            ext = base[dot + 1:] if dot >= 0 else []
            try:
                v = int(b''.join(ver).decode('utf-16_be')) if ver else 0
            except ValueError:
                v = 0
            return b''.join(nm), b''.join(ext), v
        an, ae, av = split2(a)
        bn, be_, bv = split2(b)
    else:
        an, ae, av = split_name(a)
        bn, be_, bv = split_name(b)
    n = max(len(an), len(bn))
    x, y = padto(an, n), padto(bn, n)
    if x != y:
        return -1 if x < y else 1
    n = max(len(ae), len(be_))
    x, y = padto(ae, n), padto(be_, n)
    if x != y:
        return -1 if x < y else 1
    if av != bv:
        return -1 if av > bv else 1
    return 0


def read_dir(vol, img, tree, ent, encoding, label, xa, seen_dirs):
    """Read the directory whose Entry is ent; fills ent.children (ordered list of Entry)."""
    where = '%s dir %s' % (label, ent.path)
    start = ent.extent * SECTOR
    if ent.length % SECTOR != 0:
        vol.complain('%s: directory length %d is not a multiple of the sector size' % (where, ent.length))
    nsec = (ent.length + SECTOR - 1) // SECTOR
    if start + nsec * SECTOR > len(img) or ent.extent == 0:
        vol.complain('%s: directory extent %d (+%d sectors) outside the image' % (where, ent.extent, nsec))
        ent.children = []
        return
    if ent.extent in seen_dirs:
        vol.complain('%s: directory extent %d already used by %s' % (where, ent.extent, seen_dirs[ent.extent]))
        ent.children = []
        return
    seen_dirs[ent.extent] = ent.path
    vol.layout.append(Obj(start, start + nsec * SECTOR, label + ' directory', ent.path))
    recs = []
    last_used_sector = -1
    for s in range(nsec):
        off = start + s * SECTOR
        end = off + SECTOR
        while off < end:
            if img[off] == 0:
                if img[off:end].strip(b'\x00'):
                    vol.complain('%s: non-zero bytes after the last record of sector %d' % (where, ent.extent + s))
                break
            rec = parse_record(vol, img, off, where)
            if rec is None:
                break
            recs.append(rec)
            last_used_sector = s
            off += rec['len']
    if last_used_sector != nsec - 1:
        # trailing all-zero sectors are legal ECMA-119 (6.8.1.1); recorded as a metric, not a complaint
        vol.empty_dir_sectors = getattr(vol, 'empty_dir_sectors', 0) + (nsec - 1 - last_used_sector)
    # dot and dotdot
    if len(recs) < 2 or recs[0]['fi'] != b'\x00' or recs[1]['fi'] != b'\x01':
        vol.complain('%s: does not start with "." and ".."' % where)
    else:
        dot, dotdot = recs[0], recs[1]
        if dot['extent'] != ent.extent or dot['length'] != ent.length:
            vol.complain('%s: "." is (%d,%d), directory is (%d,%d)' % (where, dot['extent'], dot['length'], ent.extent, ent.length))
        par = ent.parent if ent.parent is not None else ent
        if dotdot['extent'] != par.extent or dotdot['length'] != par.length:
            vol.complain('%s: ".." is (%d,%d), parent is (%d,%d)' % (where, dotdot['extent'], dotdot['length'], par.extent, par.length))
        for r in (dot, dotdot):
            if not r['flags'] & 2:
                vol.complain('%s: "."/".." without directory flag' % where)
    ent.dot_su = recs[0]['su'] if recs else b''
    ent.dotdot_su = recs[1]['su'] if len(recs) > 1 else b''
    ent.dot_off = recs[0]['off'] if recs else None
    ent.dotdot_off = recs[1]['off'] if len(recs) > 1 else None
    width = 2 if encoding == 'utf-16_be' else 1
    # ordering (9.3) among the real entries
    real = [r for r in recs if r['fi'] not in (b'\x00', b'\x01')]
    for a, b in zip(real, real[1:]):
        c = cmp_93(a['fi'], b['fi'], width)
        if c > 0:
            if a['fi'] <= b['fi']:
                # ascending by the raw identifier bytes (the order mkisofs and pycdlib use), which differs from
                # 9.3 where a short extension/name sorts before a longer one and versions descend
                vol.complain('%s: records in raw byte order, which is not the order of 9.3: %r before %r' % (where, a['fi'][:40], b['fi'][:40]))
            else:
                vol.complain('%s: records not sorted (neither per 9.3 nor by identifier bytes): %r before %r' % (where, a['fi'][:40], b['fi'][:40]))
        elif c == 0:
            # equal identifiers: only legal as consecutive sections of one multi-extent file
            if not (a['flags'] & 0x80) and not (a['flags'] & 4) and not (b['flags'] & 4):
                vol.complain('%s: duplicate identifier %r' % (where, a['fi'][:40]))
    children = []
    pending = None
    for r in real:
        try:
            name = r['fi'].decode(encoding)
        except UnicodeDecodeError:
            name = r['fi'].decode('latin-1')
            vol.complain('%s: identifier %r does not decode as %s' % (where, r['fi'][:40], encoding))
        if xa:
            if len(r['su']) < 14 or r['su'][6:8] != b'XA':
                vol.complain('%s: record %r lacks the XA system use record' % (where, name))
        if pending is not None and pending.raw_name == r['fi'] and not r['flags'] & 2:
            # next section of a multi-extent file
            pending.extents.append((r['extent'], r['length']))
            pending.rec_offsets.append(r['off'])
            pending.rec_lens.append(r['len'])
            if not r['flags'] & 0x80:
                pending = None
            continue
        e = Entry()
        e.name = name
        e.raw_name = r['fi']
        e.is_dir = bool(r['flags'] & 2)
        e.hidden = bool(r['flags'] & 1)
        e.assoc = bool(r['flags'] & 4)
        e.flags = r['flags']
        e.extent = r['extent']
        e.length = r['length']
        e.extents = [(r['extent'], r['length'])]
        e.rec_offsets = [r['off']]
        e.rec_lens = [r['len']]
        e.su = r['su']
        e.date = r['date']
        e.parent = ent
        e.path = (ent.path if ent.path != '/' else '') + '/' + name
        children.append(e)
        pending = e if (r['flags'] & 0x80) else None
        if r['ext_attr_len'] != 0:
            vol.complain('%s: record %r has an extended attribute record' % (where, name))
        if r['unit'] or r['gap']:
            vol.complain('%s: record %r is interleaved' % (where, name))
    if pending is not None:
        vol.complain('%s: multi-extent file %r not terminated' % (where, pending.name))
    ent.children = children


def read_tree(vol, img, vd, encoding, label, xa=False, rr_probe=None):
    tree = Tree()
    rr = parse_record(vol, vd['raw'], 156, '%s root record' % label)
    root = Entry()
    root.name = ''
    root.raw_name = b'\x00'
    root.is_dir = True
    root.hidden = False
    root.flags = rr['flags'] if rr else 2
    root.extent = rr['extent'] if rr else 0
    root.length = rr['length'] if rr else 0
    root.extents = [(root.extent, root.length)]
    root.path = '/'
    root.su = b''
    root.rec_offsets = [vd['sector'] * SECTOR + 156]
    root.rec_lens = [34]
    if rr is None or rr['len'] != 34 or rr['fi'] != b'\x00' or not rr['flags'] & 2:
        vol.complain('%s: malformed root directory record in the descriptor' % label)
    tree.root = root
    tree.by_path['/'] = root
    seen_dirs = {}
    queue = [root]
    file_extents = {}
    while queue:
        d = queue.pop(0)
        tree.dirs_in_order.append(d)
        read_dir(vol, img, tree, d, encoding, label, xa, seen_dirs)
        for c in d.children:
            if c.path in tree.by_path:
                vol.complain('%s: duplicate path %s' % (label, c.path))
            tree.by_path.setdefault(c.path, c)
            if c.is_dir:
                queue.append(c)
    return tree


def file_bytes(img, ent):
    out = []
    for extent, length in ent.extents:
        if length == 0:
            continue
        out.append(img[extent * SECTOR:extent * SECTOR + length])
    return b''.join(out)


def check_path_tables(vol, img, vd, tree, label, is_cl=None):
    """L and M tables: list exactly the directory hierarchy in standard order with right parents/extents."""
    size = vd['path_table_size']
    out = {}
    for kind, loc, fmt in (('L', vd['l_table'], '<'), ('M', vd['m_table'], '>')):
        nsec = (size + SECTOR - 1) // SECTOR
        if loc == 0 or (loc + nsec) * SECTOR > len(img):
            vol.complain('%s: %s path table at %d outside the image' % (label, kind, loc))
            continue
        # pycdlib (like mkisofs) reserves at least 2 sectors (4096 bytes) per table; the
        # allocation map takes what the size field implies
        vol.layout.append(Obj(loc * SECTOR, (loc + max(nsec, 1)) * SECTOR, '%s path table %s' % (label, kind), ''))
        buf = img[loc * SECTOR:loc * SECTOR + size]
        recs = []
        off = 0
        while off < size:
            ldi = buf[off]
            if ldi == 0:
                vol.complain('%s: %s path table has a zero-length identifier at %d' % (label, kind, off))
                break
            extent = struct.unpack_from(fmt + 'L', buf, off + 2)[0]
            parent = struct.unpack_from(fmt + 'H', buf, off + 6)[0]
            name = buf[off + 8:off + 8 + ldi]
            recs.append((name, extent, parent, buf[off + 1]))
            off += 8 + ldi + (ldi % 2)
        if off != size:
            vol.complain('%s: %s path table records end at %d, size field says %d' % (label, kind, off, size))
        rest = img[loc * SECTOR + size:(loc + nsec) * SECTOR]
        if rest.strip(b'\x00'):
            vol.complain('%s: %s path table sector tail not zero' % (label, kind))
        out[kind] = recs
    if 'L' in out and 'M' in out and out['L'] != out['M']:
        vol.complain('%s: L and M path tables differ' % label)
    recs = out.get('L') or out.get('M')
    if recs is None:
        return
    # expected: breadth-first by level; within a level ordered by parent number then identifier
    expected = []
    number = {}
    level = [tree.root]
    order = []
    number[id(tree.root)] = 1
    expected.append((b'\x00', tree.root.extent, 1))
    order.append(tree.root)
    while level:
        nxt = []
        for d in level:
            for c in (d.children or []):
                if c.is_dir and c.children is not None and not (is_cl and is_cl(c)):
                    nxt.append(c)
        nxt.sort(key=lambda c: (number[id(c.parent)], c.raw_name))
        for c in nxt:
            number[id(c)] = len(order) + 1
            order.append(c)
            expected.append((c.raw_name, c.extent, number[id(c.parent)]))
        level = nxt
    got = [(n, e, p) for n, e, p, x in recs]
    if got != expected:
        # find first difference
        for i in range(max(len(got), len(expected))):
            g = got[i] if i < len(got) else None
            e = expected[i] if i < len(expected) else None
            if g != e:
                vol.complain('%s: path table record %d is %r, hierarchy implies %r (%d records vs %d directories)' % (
                    label, i + 1, g and (g[0][:30], g[1], g[2]), e and (e[0][:30], e[1], e[2]), len(got), len(expected)))
                break
    if any(x for n, e, p, x in recs):
        vol.complain('%s: path table record with extended attribute length' % label)


def decode(img, follow_rr_relocation=None):
    vol = Volume()
    if len(img) % SECTOR:
        vol.complain('image length %d is not a multiple of 2048' % len(img))
    if len(img) < 18 * SECTOR:
        vol.complain('image shorter than 18 sectors')
        return vol
    vol.layout.append(Obj(0, 16 * SECTOR, 'system area', ''))
    sec = 16
    terminated = False
    while (sec + 1) * SECTOR <= len(img):
        d = img[sec * SECTOR:(sec + 1) * SECTOR]
        if d[1:6] != b'CD001':
            break
        vd = parse_vd(vol, img, sec)
        vol.vds.append(vd)
        vol.layout.append(Obj(sec * SECTOR, (sec + 1) * SECTOR, 'volume descriptor', vd['kind']))
        sec += 1
        if vd['type'] == 255:
            terminated = True
            break
    if not terminated:
        vol.complain('volume descriptor set not terminated')
    if not vol.vds or vol.vds[0]['type'] != 1:
        vol.complain('no primary volume descriptor at sector 16')
        return vol
    pvds = [v for v in vol.vds if v['kind'] == 'pvd']
    for v in vol.vds:
        if v['version'] != 1 and not (v['kind'] == 'enhanced' and v['version'] == 2):
            vol.complain('VD@%d: version %d' % (v['sector'], v['version']))
        if v['kind'] in ('pvd', 'joliet') and v['file_structure_version'] != 1:
            vol.complain('VD@%d: file structure version %d' % (v['sector'], v['file_structure_version']))
    pvd = pvds[0]
    vol.space_size = pvd['space_size']
    for other in pvds[1:]:
        a = bytearray(pvd['raw'])
        b = bytearray(other['raw'])
        if a != b:
            vol.complain('duplicate PVD at %d differs from the PVD at 16' % other['sector'])
    for v in vol.vds:
        if v['type'] in (1, 2) and v['space_size'] != pvd['space_size']:
            vol.complain('VD@%d: space size %d differs from PVD %d' % (v['sector'], v['space_size'], pvd['space_size']))
    xa = pvd['raw'][1024 + 0:1024 + 8] == b'CD-XA001' or pvd['raw'][883 + 141:883 + 149] == b'CD-XA001'
    vol.xa = xa
    vol.trees['iso'] = read_tree(vol, img, pvd, 'utf-8', 'iso', xa=xa)
    vol.pvd = pvd
    for v in vol.vds:
        if v['kind'] == 'joliet':
            vol.trees['joliet'] = read_tree(vol, img, v, 'utf-16_be', 'joliet')
            vol.joliet_vd = v
        elif v['kind'] == 'enhanced':
            vol.trees['enhanced'] = read_tree_quiet(vol, img, v)
            vol.enhanced_vd = v
    return vol


def finish(vol, img, not_files=()):
    """File extents -> allocation map.  not_files: ids of entries that carry no data (e.g. Rock Ridge CL placeholders)."""
    seen = {}
    for ns, tree in vol.trees.items():
        if ns == 'enhanced':
            continue
        for p, e in tree.by_path.items():
            if e.is_dir or id(e) in not_files:
                continue
            for extent, length in e.extents:
                if length == 0:
                    continue
                nsec = (length + SECTOR - 1) // SECTOR
                if extent == 0 or (extent + nsec) * SECTOR > len(img):
                    vol.complain('%s file %s: extent %d (+%d) outside the image' % (ns, p, extent, nsec))
                    continue
                key = (extent, nsec)
                if key not in seen:
                    seen[key] = True
                    vol.layout.append(Obj(extent * SECTOR, (extent + nsec) * SECTOR, 'file data', '%s:%s' % (ns, p)))


def read_tree_quiet(vol, img, vd):
    """The ISO9660:1999 enhanced descriptor shares the PVD's tree; read it without double layout."""
    n_layout = len(vol.layout)
    t = read_tree(vol, img, vd, 'utf-8', 'enhanced', xa=getattr(vol, 'xa', False))
    del vol.layout[n_layout:]
    return t


def check_tables(vol, img, is_cl=None):
    check_path_tables(vol, img, vol.pvd, vol.trees['iso'], 'iso', is_cl)
    if 'joliet' in vol.trees:
        check_path_tables(vol, img, vol.joliet_vd, vol.trees['joliet'], 'joliet')
    if 'enhanced' in vol.trees:
        n = len(vol.layout)
        check_path_tables(vol, img, vol.enhanced_vd, vol.trees['enhanced'], 'enhanced', is_cl)
        del vol.layout[n:]
