"""Check vectors for the independent decoders (run by ./check --selftest)."""
import struct


def main():
    ok = True
    from mc.readers import r167, rhyb, r119, rsusp, rboot

    def expect(name, got, want):
        nonlocal ok
        if got != want:
            print('selftest: FAIL %s: %r != %r' % (name, got, want))
            ok = False
    # CRC-CCITT (poly 0x1021, init 0, no reflection) = CRC-16/XMODEM: check value 0x31C3; ECMA-167 uses exactly this
    expect('crc_ccitt bitwise', r167.crc_ccitt(b'123456789'), 0x31C3)
    expect('crc_ccitt table', r167.crc_fast(b'123456789'), 0x31C3)
    # ECMA-167 7.2.6 example: bytes 70 6A 77 -> 0x3299
    expect('crc_ccitt ecma example', r167.crc_fast(b'\x70\x6a\x77'), 0x3299)
    expect('crc32 bitwise', rhyb.crc32(b'123456789'), 0xCBF43926)
    expect('crc32 table', rhyb.crc32_fast(b'123456789'), 0xCBF43926)
    # a hand-assembled directory record: length 34+8, extent 25, size 7, flags 0, name "FOO.;1" (len 6, padded)
    name = b'FOO.;1'
    rec = bytearray(33 + len(name) + 1)
    rec[0] = len(rec)
    struct.pack_into('<L', rec, 2, 25)
    struct.pack_into('>L', rec, 6, 25)
    struct.pack_into('<L', rec, 10, 7)
    struct.pack_into('>L', rec, 14, 7)
    struct.pack_into('<H', rec, 28, 1)
    struct.pack_into('>H', rec, 30, 1)
    rec[32] = len(name)
    rec[33:33 + len(name)] = name
    vol = r119.Volume()
    img = bytes(2048) + bytes(rec) + bytes(2048)
    r = r119.parse_record(vol, img, 2048, 'vector')
    expect('record parse', (r['extent'], r['length'], r['fi'], r['su'], vol.complaints), (25, 7, name, b'', []))
    # 9.3 ordering: 'A.B;1' sorts before 'A.B1;1' (shorter extension is padded with spaces), versions descend
    expect('order 9.3 ext', r119.cmp_93(b'A.B;1', b'A.B1;1', 1), -1)
    expect('order 9.3 version', r119.cmp_93(b'A.;2', b'A.;1', 1), -1)
    expect('order 9.3 name', r119.cmp_93(b'AB.;1', b'A.;1', 1), 1)
    # SUSP: NM (flags 0, "ab") + PX 36 bytes + SL with components ROOT, "x", PARENT
    nm = b'NM' + bytes([5 + 2, 1, 0]) + b'ab'
    px = b'PX' + bytes([36, 1]) + b''.join(struct.pack('<L', v) + struct.pack('>L', v) for v in (0o100644, 1, 0, 0))
    sl = b'SL' + bytes([5 + 2 + 3 + 2, 1, 0]) + bytes([8, 0]) + bytes([0, 1]) + b'x' + bytes([4, 0])
    rr = rsusp.RR()
    f = rsusp.fields_of(rr, b'', nm + px + sl, 'vector', 0)
    expect('susp NM', rsusp.nm_name(rr, f, 'vector'), b'ab')
    expect('susp PX', f['PX'][:2], [0o100644, 1])
    expect('susp SL', rsusp.sl_target(rr, f, 'vector'), b'/x/..')
    expect('susp complaints', rr.complaints, [])
    # El Torito validation entry: words sum to zero
    val = bytearray(32)
    val[0] = 1
    val[30:32] = b'\x55\xaa'
    s = sum(struct.unpack('<16H', bytes(val))) & 0xffff
    struct.pack_into('<H', val, 28, (-s) & 0xffff)
    expect('validation sum', sum(struct.unpack('<16H', bytes(val))) & 0xffff, 0)
    expect('bit checksum', rboot.bit_checksum(bytes(64) + struct.pack('<LL', 1, 0xffffffff) + b'\x02'), 2)
    if ok:
        print('selftest: decoder vectors ok')
    return ok
