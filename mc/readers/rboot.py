"""
Independent El Torito reader (El Torito 1.0 specification).  struct only.

decode(img) -> Boot with .present, .catalog_sector, .entries [dict], .complaints, .layout
"""
import struct

SECTOR = 2048


class Boot(object):
    def __init__(self):
        self.present = False
        self.complaints = []
        self.entries = []
        self.catalog_sector = None
        self.layout = []
        self.platform = None
        self.sections = []

    def complain(self, m):
        self.complaints.append(m)


MEDIA = {0: 'noemul', 1: 'floppy', 2: 'floppy', 3: 'floppy', 4: 'hdemul'}


def parse_entry(b, raw, where, initial):
    e = {'bootable': raw[0] == 0x88, 'indicator': raw[0], 'media': raw[1] & 0x0f, 'media_flags': raw[1] & 0xf0,
         'load_seg': struct.unpack_from('<H', raw, 2)[0], 'system_type': raw[4],
         'sector_count': struct.unpack_from('<H', raw, 6)[0], 'rba': struct.unpack_from('<L', raw, 8)[0],
         'selection': raw[12], 'raw': bytes(raw)}
    if raw[0] not in (0x88, 0x00):
        b.complain('%s: boot indicator %#x' % (where, raw[0]))
    if e['media'] > 4:
        b.complain('%s: media type %d' % (where, e['media']))
    if raw[5] != 0:
        b.complain('%s: unused byte 5 is %#x' % (where, raw[5]))
    return e


def decode(img):
    b = Boot()
    # boot record: searched in the descriptor set from sector 16
    sec = 16
    br = None
    while (sec + 1) * SECTOR <= len(img):
        d = img[sec * SECTOR:(sec + 1) * SECTOR]
        if d[1:6] != b'CD001' or d[0] == 255:
            break
        if d[0] == 0 and d[7:30] == b'EL TORITO SPECIFICATION':
            br = (sec, d)
            break
        sec += 1
    if br is None:
        return b
    b.present = True
    sec, d = br
    if sec != 17:
        b.complain('El Torito boot record at sector %d, must be 17' % sec)
    if d[6] != 1:
        b.complain('boot record version %d' % d[6])
    if d[7:39] != b'EL TORITO SPECIFICATION'.ljust(32, b'\x00'):
        b.complain('boot system identifier not zero padded')
    if d[39:71].strip(b'\x00'):
        b.complain('boot identifier not zero')
    cat = struct.unpack_from('<L', d, 71)[0]
    b.catalog_sector = cat
    if cat == 0 or (cat + 1) * SECTOR > len(img):
        b.complain('boot catalog sector %d outside the image' % cat)
        return b
    b.layout.append((cat * SECTOR, (cat + 1) * SECTOR, 'boot catalog', ''))
    c = img[cat * SECTOR:(cat + 1) * SECTOR]
    b.catalog_bytes = c
    val = c[0:32]
    if val[0] != 1:
        b.complain('validation entry header id %d' % val[0])
    b.platform = val[1]
    if val[30:32] != b'\x55\xaa':
        b.complain('validation entry key bytes %r' % val[30:32])
    s = sum(struct.unpack('<16H', val)) & 0xFFFF
    if s != 0:
        b.complain('validation entry words sum to %#x, not 0' % s)
    ini = parse_entry(b, c[32:64], 'initial entry', True)
    ini['platform'] = val[1]
    ini['section'] = 0
    b.entries.append(ini)
    off = 64
    last_seen = False
    nsec = 0
    while off + 32 <= SECTOR:
        h = c[off:off + 32]
        if h[0] not in (0x90, 0x91):
            if h.strip(b'\x00'):
                if h[0] == 0x88 or h[0] == 0x00:
                    pass
                b.complain('catalog: unexpected byte %#x at offset %d' % (h[0], off)) if h[0] not in (0x88,) else None
            break
        if last_seen:
            b.complain('catalog: section header after the final one')
        n = struct.unpack_from('<H', h, 2)[0]
        plat = h[1]
        nsec += 1
        b.sections.append({'platform': plat, 'n': n, 'last': h[0] == 0x91, 'off': off})
        off += 32
        for i in range(n):
            if off + 32 > SECTOR:
                b.complain('catalog: section entries exceed the sector')
                break
            e = parse_entry(b, c[off:off + 32], 'section %d entry %d' % (nsec, i), False)
            e['platform'] = plat
            e['section'] = nsec
            b.entries.append(e)
            off += 32
        if h[0] == 0x91:
            last_seen = True
    if b.sections and not last_seen:
        b.complain('catalog: no final (0x91) section header')
    for e in b.entries:
        if e['rba'] == 0 or e['rba'] * SECTOR >= len(img):
            b.complain('entry load RBA %d outside the image' % e['rba'])
    return b


def boot_info_table(data, pvd_sector=16):
    """Decode the 56-byte table at offset 8 of a boot file's bytes; returns dict or None if too short."""
    if len(data) < 24:
        return None
    pvd, lba, ln, csum = struct.unpack_from('<LLLL', data, 8)
    return {'pvd': pvd, 'lba': lba, 'len': ln, 'csum': csum, 'reserved': data[24:64]}


def bit_checksum(data):
    """32-bit sum of the little-endian words from offset 64 to the end (zero padded to 4)."""
    rest = data[64:]
    if len(rest) % 4:
        rest = rest + b'\x00' * (4 - len(rest) % 4)
    s = 0
    for (w,) in struct.iter_unpack('<L', rest):
        s = (s + w) & 0xFFFFFFFF
    return s
