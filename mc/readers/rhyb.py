"""
Independent reader of the isohybrid system area: MBR partition table, GPT (UEFI 2.x chapter 5), APM.
struct only; own table-free CRC32.

decode(img) -> Hyb with .present, .mbr (dict), .gpt (dict or None), .apm (list), .complaints
"""
import struct


def crc32(data):
    """Bitwise (table-free) CRC-32/ISO-HDLC; vector: crc32(b'123456789') == 0xCBF43926."""
    crc = 0xFFFFFFFF
    for b in data:
        crc ^= b
        for _ in range(8):
            crc = (crc >> 1) ^ 0xEDB88320 if crc & 1 else crc >> 1
    return crc ^ 0xFFFFFFFF


_T = None


def crc32_fast(data):
    global _T
    if _T is None:
        _T = []
        for i in range(256):
            c = i
            for _ in range(8):
                c = (c >> 1) ^ 0xEDB88320 if c & 1 else c >> 1
            _T.append(c)
    crc = 0xFFFFFFFF
    for b in data:
        crc = (crc >> 8) ^ _T[(crc ^ b) & 0xFF]
    return crc ^ 0xFFFFFFFF


class Hyb(object):
    def __init__(self):
        self.present = False
        self.complaints = []
        self.mbr = None
        self.gpt = None
        self.apm = []

    def complain(self, m):
        self.complaints.append(m)


def chs(b):
    head = b[0]
    sect = b[1] & 0x3f
    cyl = b[2] | ((b[1] & 0xc0) << 2)
    return cyl, head, sect


def parse_gpt_header(h, raw, where):
    sig, rev, hsize, hcrc, res, cur, bak, first, last = struct.unpack_from('<8s4sLLLQQQQ', raw, 0)
    guid = raw[56:72]
    ent_lba, nent, esize, acrc = struct.unpack_from('<QLLL', raw, 72)
    g = {'sig': sig, 'rev': rev, 'hsize': hsize, 'hcrc': hcrc, 'current': cur, 'backup': bak, 'first_usable': first,
         'last_usable': last, 'guid': guid, 'entries_lba': ent_lba, 'num': nent, 'esize': esize, 'array_crc': acrc}
    if sig != b'EFI PART':
        h.complain('%s: signature %r' % (where, sig))
        return None
    if rev != b'\x00\x00\x01\x00':
        h.complain('%s: revision %r' % (where, rev))
    if hsize != 92:
        h.complain('%s: header size %d' % (where, hsize))
    if res != 0:
        h.complain('%s: reserved field not zero' % where)
    z = bytearray(raw[:92])
    z[16:20] = b'\x00\x00\x00\x00'
    if crc32_fast(bytes(z)) != hcrc:
        h.complain('%s: header CRC32 %08x, computed %08x' % (where, hcrc, crc32_fast(bytes(z))))
    if raw[92:512].strip(b'\x00'):
        h.complain('%s: bytes after the header not zero' % where)
    return g


def parse_entries(img, g, h, where):
    off = g['entries_lba'] * 512
    n, sz = g['num'], g['esize']
    if sz != 128 or n > 1024 or off + n * sz > len(img):
        h.complain('%s: partition array (lba %d, %d x %d) outside the image' % (where, g['entries_lba'], n, sz))
        return None, None
    arr = img[off:off + n * sz]
    ents = []
    for i in range(n):
        e = arr[i * sz:(i + 1) * sz]
        if not e[:16].strip(b'\x00'):
            if e.strip(b'\x00'):
                h.complain('%s: unused partition entry %d not zero' % (where, i))
            continue
        first, last, attr = struct.unpack_from('<QQQ', e, 32)
        ents.append({'index': i, 'type': e[:16], 'guid': e[16:32], 'first': first, 'last': last, 'attr': attr,
                     'name': e[56:128].decode('utf-16_le').rstrip('\x00')})
    used = len(ents)
    full = crc32_fast(arr)
    part = crc32_fast(arr[:used * sz])
    if g['array_crc'] == full:
        g['array_crc_kind'] = 'full array'
    elif g['array_crc'] == part:
        g['array_crc_kind'] = 'used entries only (isohybrid convention)'
    else:
        g['array_crc_kind'] = 'wrong'
        h.complain('%s: partition array CRC32 %08x matches neither the full array (%08x) nor the used entries (%08x)' % (where, g['array_crc'], full, part))
    return ents, arr


def decode(img):
    h = Hyb()
    if len(img) < 512:
        return h
    sec0 = img[:512]
    if sec0[510:512] != b'\x55\xaa':
        if sec0.strip(b'\x00'):
            h.complain('system area sector 0 is non-zero but has no 0x55AA signature')
        return h
    h.present = True
    m = {'rba': struct.unpack_from('<L', sec0, 432)[0], 'rba_hi': struct.unpack_from('<L', sec0, 436)[0],
         'mbr_id': struct.unpack_from('<L', sec0, 440)[0], 'pad': sec0[444:446], 'parts': []}
    for i in range(4):
        e = sec0[446 + 16 * i:446 + 16 * (i + 1)]
        status, = struct.unpack_from('<B', e, 0)
        ptype = e[4]
        lba, size = struct.unpack_from('<LL', e, 8)
        m['parts'].append({'index': i + 1, 'status': status, 'type': ptype, 'chs_start': chs(e[1:4]), 'chs_end': chs(e[5:8]),
                           'lba': lba, 'size': size, 'raw': bytes(e)})
    h.mbr = m
    active = [p for p in m['parts'] if p['status'] == 0x80]
    if len(active) != 1:
        h.complain('MBR has %d active partitions' % len(active))
    for p in m['parts']:
        if p['status'] not in (0, 0x80):
            h.complain('MBR partition %d status %#x' % (p['index'], p['status']))
    if m['pad'] != b'\x00\x00':
        h.complain('MBR bytes 444-445 not zero')
    # GPT
    if len(img) >= 1024 and img[512:520] == b'EFI PART':
        g = parse_gpt_header(h, img[512:1024], 'primary GPT header')
        if g is not None:
            ents, arr = parse_entries(img, g, h, 'primary GPT')
            g['entries'] = ents
            if g['current'] != 1:
                h.complain('primary GPT header: current LBA %d' % g['current'])
            total = len(img) // 512
            if g['backup'] != total - 1:
                h.complain('primary GPT header: backup LBA %d, last LBA of the image is %d' % (g['backup'], total - 1))
            b = None
            if g['backup'] * 512 + 512 <= len(img):
                b = parse_gpt_header(h, img[g['backup'] * 512:g['backup'] * 512 + 512], 'backup GPT header')
            else:
                h.complain('backup GPT header outside the image')
            if b is not None:
                bents, barr = parse_entries(img, b, h, 'backup GPT')
                b['entries'] = bents
                if b['current'] != g['backup'] or b['backup'] != g['current']:
                    h.complain('GPT headers do not point at each other: primary (%d,%d) backup (%d,%d)' % (g['current'], g['backup'], b['current'], b['backup']))
                for k in ('first_usable', 'last_usable', 'guid', 'num', 'esize', 'array_crc'):
                    if g[k] != b[k]:
                        h.complain('GPT primary and backup differ in %s: %r vs %r' % (k, g[k], b[k]))
                if arr is not None and barr is not None and arr != barr:
                    h.complain('GPT primary and backup partition arrays differ')
                if b['entries_lba'] + (b['num'] * b['esize'] + 511) // 512 != b['current']:
                    h.complain('backup GPT array (lba %d, %d entries) does not end right before its header at %d' % (b['entries_lba'], b['num'], b['current']))
            g['backup_header'] = b
            if ents:
                for e in ents:
                    if e['last'] < e['first']:
                        h.complain('GPT partition %d: last LBA %d before first %d' % (e['index'], e['last'], e['first']))
                    if e['last'] >= total:
                        h.complain('GPT partition %d ends at %d beyond the image (%d)' % (e['index'], e['last'], total))
            h.gpt = g
    # APM: 2048-byte blocks with 'PM' signature
    for blk in range(1, 8):
        off = blk * 2048
        if off + 512 <= len(img) and img[off:off + 2] == b'PM':
            cnt, start, count = struct.unpack_from('>LLL', img, off + 4)
            name = img[off + 16:off + 48].rstrip(b'\x00')
            typ = img[off + 48:off + 80].rstrip(b'\x00')
            dstart, dcount, status = struct.unpack_from('>LLL', img, off + 80)
            h.apm.append({'block': blk, 'map_count': cnt, 'start': start, 'count': count, 'name': name, 'type': typ,
                          'data_start': dstart, 'data_count': dcount, 'status': status})
    if h.apm:
        for a in h.apm:
            if a['map_count'] != len(h.apm):
                h.complain('APM entry at block %d says %d map entries, %d found' % (a['block'], a['map_count'], len(h.apm)))
    return h
