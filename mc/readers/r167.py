"""
Independent ECMA-167 / UDF 2.60 (bridge) reader.  struct only; shares no code with pycdlib.

decode(img, vrs_start) -> UDF with
    .present
    .tree: {path: UNode(kind, data|target, fe_sector, extents, name)}
    .complaints
    .layout: list of (start_byte, end_byte, kind, label)
    .part_start, .part_len, .lvid (dict)
"""
import struct

SECTOR = 2048


def crc_ccitt(data):
    """CRC-CCITT (poly 0x1021, init 0 = CRC-16/XMODEM), bitwise - checked in vectors.py against 0x31C3 for "123456789"
    and against the ECMA-167 7.2.6 example (0x3299)."""
    crc = 0
    for b in data:
        crc ^= b << 8
        for _ in range(8):
            if crc & 0x8000:
                crc = ((crc << 1) ^ 0x1021) & 0xFFFF
            else:
                crc = (crc << 1) & 0xFFFF
    return crc


_CRC_TABLE = None


def crc_fast(data):
    global _CRC_TABLE
    if _CRC_TABLE is None:
        t = []
        for i in range(256):
            c = i << 8
            for _ in range(8):
                c = ((c << 1) ^ 0x1021) & 0xFFFF if c & 0x8000 else (c << 1) & 0xFFFF
            t.append(c)
        _CRC_TABLE = t
    crc = 0
    t = _CRC_TABLE
    for b in data:
        crc = ((crc << 8) & 0xFFFF) ^ t[(crc >> 8) ^ b]
    return crc


class UNode(object):
    __slots__ = ('kind', 'data', 'target', 'fe_sector', 'extents', 'name', 'info_len', 'link_count', 'embedded', 'fid_off')


class UDF(object):
    def __init__(self):
        self.present = False
        self.complaints = []
        self.tree = {}
        self.layout = []
        self.part_start = None
        self.part_len = None
        self.lvid = None
        self.fe_of = {}
        self.notes = []
        self.counts = (0, 0)

    def complain(self, m):
        if len(self.complaints) < 200:
            self.complaints.append(m)


def check_tag(u, img, sector, want_id, tagloc, where, maxlen=SECTOR):
    """Validate the descriptor tag at the start of `sector`.  Returns the descriptor bytes (maxlen) or None."""
    off = sector * SECTOR
    if off + 16 > len(img):
        u.complain('%s: sector %d outside the image' % (where, sector))
        return None
    tag = img[off:off + 16]
    ident, ver, csum, res, serial, crc, crclen, loc = struct.unpack('<HHBBHHHL', tag)
    if want_id is not None and ident != want_id:
        u.complain('%s: tag identifier %d at sector %d, expected %s' % (where, ident, sector, want_id))
        return None
    if ver not in (2, 3):
        u.complain('%s: descriptor version %d' % (where, ver))
    s = (sum(tag[0:4]) + sum(tag[5:16])) & 0xFF
    if s != csum:
        u.complain('%s: tag checksum %d, computed %d' % (where, csum, s))
    if 16 + crclen > maxlen or off + 16 + crclen > len(img):
        u.complain('%s: CRC length %d too large' % (where, crclen))
    else:
        c = crc_fast(img[off + 16:off + 16 + crclen])
        if c != crc:
            u.complain('%s: tag CRC %04x, computed %04x over %d bytes' % (where, crc, c, crclen))
    if loc != tagloc:
        u.complain('%s: tag location %d, expected %d' % (where, loc, tagloc))
    return img[off:off + maxlen], crclen


def osta_name(u, raw, where):
    if not raw:
        return ''
    if raw[0] == 8:
        return raw[1:].decode('latin-1')
    if raw[0] == 16:
        try:
            return raw[1:].decode('utf-16_be')
        except UnicodeDecodeError:
            u.complain('%s: bad UTF-16 identifier' % where)
            return raw[1:].decode('latin-1')
    u.complain('%s: compression id %d' % (where, raw[0]))
    return raw[1:].decode('latin-1')


def parse_vds(u, img, loc, length, where):
    """Volume descriptor sequence -> dict tagid -> list of (sector, bytes)."""
    out = {}
    n = length // SECTOR
    terminated = False
    for i in range(n):
        sec = loc + i
        if (sec + 1) * SECTOR > len(img):
            u.complain('%s: sequence leaves the image' % where)
            break
        ident = struct.unpack('<H', img[sec * SECTOR:sec * SECTOR + 2])[0]
        if ident == 0:
            continue
        r = check_tag(u, img, sec, None, sec, '%s sector %d' % (where, sec))
        if r is None:
            continue
        out.setdefault(ident, []).append((sec, r[0]))
        if ident == 8:
            terminated = True
            break
    if not terminated:
        u.complain('%s: no terminating descriptor' % where)
    return out


def decode(img, want=True):
    u = UDF()
    nsect = len(img) // SECTOR
    # --- volume recognition sequence (after the ISO9660 descriptors)
    sec = 16
    ids = []
    while sec < min(nsect, 64):
        d = img[sec * SECTOR:sec * SECTOR + 7]
        if d[1:6] in (b'CD001', b'BEA01', b'NSR02', b'NSR03', b'TEA01', b'BOOT2'):
            ids.append((sec, d[1:6], d[0], d[6]))
            sec += 1
        else:
            break
    names = [i[1] for i in ids]
    if b'NSR02' not in names and b'NSR03' not in names:
        return u
    u.present = True
    seq = [n for n in names if n != b'CD001']
    if not (len(seq) >= 3 and seq[0] == b'BEA01' and seq[-1] == b'TEA01'):
        u.complain('volume recognition sequence is %s' % seq)
    for s, n, t, v in ids:
        if n in (b'BEA01', b'NSR02', b'NSR03', b'TEA01'):
            if t != 0 or v != 1:
                u.complain('VRS descriptor %s at %d: type %d version %d' % (n, s, t, v))
            if img[s * SECTOR + 7:(s + 1) * SECTOR].strip(b'\x00'):
                u.complain('VRS descriptor %s at %d: data area not zero' % (n, s))
            u.layout.append((s * SECTOR, (s + 1) * SECTOR, 'udf vrs', n.decode()))
    # --- anchors
    anchors = {}
    for where, s in (('anchor@256', 256), ('anchor@last', nsect - 1)):
        if s >= nsect or s < 0:
            u.complain('%s: outside the image' % where)
            continue
        r = check_tag(u, img, s, 2, s, where, 512)
        if r is None:
            continue
        a = r[0]
        main = struct.unpack_from('<LL', a, 16)
        reserve = struct.unpack_from('<LL', a, 24)
        anchors[where] = (main, reserve)
        u.layout.append((s * SECTOR, (s + 1) * SECTOR, 'udf anchor', where))
    if len(anchors) < 2:
        u.complain('fewer than two valid anchors (256 and last sector)')
        if not anchors:
            return u
    vals = list(anchors.values())
    if len(vals) == 2 and vals[0] != vals[1]:
        u.complain('anchors disagree: %s vs %s' % (vals[0], vals[1]))
    (mlen, mloc), (rlen, rloc) = vals[0]
    mainseq = parse_vds(u, img, mloc, mlen, 'main VDS')
    resseq = parse_vds(u, img, rloc, rlen, 'reserve VDS')
    u.layout.append((mloc * SECTOR, mloc * SECTOR + mlen, 'udf main vds', ''))
    u.layout.append((rloc * SECTOR, rloc * SECTOR + rlen, 'udf reserve vds', ''))
    # reserve must mirror main (apart from tag location / checksum / crc)
    for ident in set(mainseq) | set(resseq):
        a = [bytes(d[16:]) for s, d in mainseq.get(ident, [])]
        b = [bytes(d[16:]) for s, d in resseq.get(ident, [])]
        if a != b:
            # not demanded by the property (pycdlib draws a separate random volume set id for the reserve copy)
            u.notes.append('reserve VDS descriptor %d differs from main' % ident)
    for need in (1, 5, 6):
        if need not in mainseq:
            u.complain('main VDS lacks descriptor %d' % need)
            return u
    psec, pd = mainseq[5][0]
    part_num = struct.unpack_from('<H', pd, 22)[0]
    part_start, part_len = struct.unpack_from('<LL', pd, 188)
    u.part_start, u.part_len = part_start, part_len
    if part_start + part_len > nsect:
        u.complain('partition [%d,+%d) leaves the image of %d sectors' % (part_start, part_len, nsect))
    lsec, lv = mainseq[6][0]
    lbs = struct.unpack_from('<L', lv, 212)[0]
    if lbs != SECTOR:
        u.complain('logical block size %d' % lbs)
    fsd_len, fsd_lbn, fsd_part = struct.unpack_from('<LLH', lv, 248)
    mt_len, n_maps = struct.unpack_from('<LL', lv, 264)
    int_len, int_loc = struct.unpack_from('<LL', lv, 432)
    u.lv_crc_len = None
    # --- partition maps (ECMA-167 3/10.7): a partition reference number is an index into this table; the Type 1 map
    # names the partition by (volume sequence number, partition number), which must be the number of a Partition Descriptor
    maps = []
    off = 440
    for i in range(n_maps):
        if off + 2 > len(lv):
            u.complain('LVD: partition map %d outside the descriptor' % i)
            break
        mtype, mlen2 = lv[off], lv[off + 1]
        if mlen2 == 0:
            u.complain('LVD: partition map %d has length 0' % i)
            break
        if mtype == 1 and mlen2 == 6:
            vsn, pnum = struct.unpack_from('<HH', lv, off + 2)
            maps.append((vsn, pnum))
            if pnum != part_num:
                u.complain('LVD: partition map %d names partition number %d (volume sequence number %d), but the partition descriptor has number %d' % (i, pnum, vsn, part_num))
            if vsn != 1 and vsn != struct.unpack_from('<H', mainseq[1][0][1], 56)[0]:
                u.complain('LVD: partition map %d names volume sequence number %d' % (i, vsn))
        else:
            maps.append(None)
        off += mlen2
    if n_maps and off - 440 != mt_len:
        u.complain('LVD: map table length %d, maps occupy %d bytes' % (mt_len, off - 440))
    if fsd_part >= max(n_maps, 1):
        u.complain('LVD: file set descriptor in partition reference %d, only %d partition map(s)' % (fsd_part, n_maps))
    # --- integrity sequence
    if int_len:
        r = check_tag(u, img, int_loc, 9, int_loc, 'LVID')
        if r is not None:
            d = r[0]
            itype = struct.unpack_from('<L', d, 28)[0]
            nparts, l_iu = struct.unpack_from('<LL', d, 72)
            free = struct.unpack_from('<%dL' % nparts, d, 80)
            size = struct.unpack_from('<%dL' % nparts, d, 80 + 4 * nparts)
            iu = d[80 + 8 * nparts:80 + 8 * nparts + l_iu]
            nfiles, ndirs = struct.unpack_from('<LL', iu, 32) if len(iu) >= 40 else (None, None)
            uniq = struct.unpack_from('<Q', d, 40)[0]
            u.lvid = {'type': itype, 'free': free, 'size': size, 'files': nfiles, 'dirs': ndirs, 'unique_id': uniq}
            u.layout.append((int_loc * SECTOR, int_loc * SECTOR + int_len, 'udf integrity', ''))
            if size and size[0] != part_len:
                u.complain('LVID size table %d differs from the partition length %d' % (size[0], part_len))
            # terminator after LVID
            t = struct.unpack('<H', img[(int_loc + 1) * SECTOR:(int_loc + 1) * SECTOR + 2])[0]
            if t == 8:
                check_tag(u, img, int_loc + 1, 8, int_loc + 1, 'LVID terminator')
    # --- file set descriptor
    fs_sec = part_start + fsd_lbn
    r = check_tag(u, img, fs_sec, 256, fsd_lbn, 'FSD')
    if r is None:
        return u
    fsd = r[0]
    u.layout.append((fs_sec * SECTOR, (fs_sec + 1) * SECTOR, 'udf fsd', ''))
    t = struct.unpack('<H', img[(fs_sec + 1) * SECTOR:(fs_sec + 1) * SECTOR + 2])[0]
    if t == 8:
        check_tag(u, img, fs_sec + 1, 8, fsd_lbn + 1, 'FSD terminator')
        u.layout.append(((fs_sec + 1) * SECTOR, (fs_sec + 2) * SECTOR, 'udf fsd terminator', ''))
    root_len, root_lbn, root_part = struct.unpack_from('<LLH', fsd, 400)

    fe_seen = {}
    ndirs = [0]
    nfiles = [0]

    def in_part(lbn, nsec, where):
        if lbn + nsec > part_len:
            u.complain('%s: blocks [%d,+%d) outside the partition of %d blocks' % (where, lbn, nsec, part_len))
            return False
        return True

    def read_fe(lbn, where):
        """Returns dict about the file entry at partition block lbn."""
        sec = part_start + lbn
        ident = struct.unpack('<H', img[sec * SECTOR:sec * SECTOR + 2])[0] if (sec + 1) * SECTOR <= len(img) else None
        if ident not in (261, 266):
            u.complain('%s: ICB at block %d (sector %d) is tag %s, not a file entry' % (where, lbn, sec, ident))
            return None
        r = check_tag(u, img, sec, ident, lbn, where + ' FE')
        if r is None:
            return None
        d, crclen = r
        ftype = d[16 + 11]
        flags = struct.unpack_from('<H', d, 16 + 18)[0]
        adtype = flags & 7
        links = struct.unpack_from('<H', d, 48)[0]
        info_len = struct.unpack_from('<Q', d, 56)[0]
        if ident == 261:
            blocks = struct.unpack_from('<Q', d, 64)[0]
            l_ea, l_ad = struct.unpack_from('<LL', d, 168)
            base = 176
        else:
            blocks = struct.unpack_from('<Q', d, 72)[0]
            l_ea, l_ad = struct.unpack_from('<LL', d, 208)
            base = 216
        if base + l_ea + l_ad > SECTOR:
            u.complain('%s FE: allocation descriptors exceed the sector' % where)
            return None
        if crclen != base + l_ea + l_ad - 16:
            u.complain('%s FE: CRC length %d does not cover the descriptor (%d)' % (where, crclen, base + l_ea + l_ad - 16))
        ads = d[base + l_ea:base + l_ea + l_ad]
        extents = []
        data = None
        if adtype == 3:
            data = bytes(ads[:info_len])
            if l_ad != info_len:
                u.complain('%s FE: embedded data length %d != information length %d' % (where, l_ad, info_len))
        else:
            step = 8 if adtype == 0 else 16
            if adtype not in (0, 1):
                u.complain('%s FE: allocation descriptor type %d' % (where, adtype))
                return None
            tot = 0
            tot_blocks = 0
            for i in range(0, l_ad - l_ad % step, step):
                ln, pos = struct.unpack_from('<LL', ads, i)
                etype = ln >> 30
                ln &= 0x3FFFFFFF
                if ln == 0:
                    continue
                nsec = (ln + SECTOR - 1) // SECTOR
                if etype != 0:
                    u.complain('%s FE: extent type %d' % (where, etype))
                in_part(pos, nsec, where + ' extent')
                extents.append((pos, ln))
                tot += ln
                tot_blocks += nsec
            if l_ad % step:
                u.complain('%s FE: allocation descriptor length %d not a multiple of %d' % (where, l_ad, step))
            if tot != info_len:
                u.complain('%s FE: extents cover %d bytes, information length is %d' % (where, tot, info_len))
            if blocks != tot_blocks:
                u.complain('%s FE: logical blocks recorded %d, extents use %d' % (where, blocks, tot_blocks))
            # all but the last extent must be whole blocks
            for pos, ln in extents[:-1]:
                if ln % SECTOR:
                    u.complain('%s FE: non-final extent of %d bytes is not block aligned' % (where, ln))
        if sec not in fe_seen:
            u.layout.append((sec * SECTOR, (sec + 1) * SECTOR, 'udf file entry', where))
        fe_seen.setdefault(sec, where)
        return {'type': ftype, 'adtype': adtype, 'links': links, 'info_len': info_len, 'extents': extents,
                'data': data, 'sector': sec, 'lbn': lbn}

    def fe_bytes(fe):
        if fe['data'] is not None:
            return fe['data']
        out = []
        for pos, ln in fe['extents']:
            s = (part_start + pos) * SECTOR
            out.append(img[s:s + ln])
        return b''.join(out)

    data_seen = {}

    def walk(lbn, path, parent_lbn, depth):
        fe = read_fe(lbn, 'dir %s' % path)
        if fe is None:
            return
        if fe['type'] != 4:
            u.complain('dir %s: file type %d' % (path, fe['type']))
            return
        ndirs[0] += 1
        n = UNode()
        n.kind = 'dir'
        n.fe_sector = fe['sector']
        n.extents = fe['extents']
        n.data = None
        n.target = None
        n.link_count = fe['links']
        n.info_len = fe['info_len']
        u.tree[path] = n
        buf = fe_bytes(fe)
        for pos, ln in fe['extents']:
            s = (part_start + pos) * SECTOR
            key = (s, 'dir')
            u.layout.append((s, s + ((ln + SECTOR - 1) // SECTOR) * SECTOR, 'udf directory', path))
        off = 0
        first = True
        nsub = 0
        while off < len(buf):
            if len(buf) - off < 38:
                u.complain('dir %s: %d stray bytes after the last file identifier' % (path, len(buf) - off))
                break
            ident, ver, csum, res, serial, crc, crclen, loc = struct.unpack_from('<HHBBHHHL', buf, off)
            if ident != 257:
                u.complain('dir %s: tag %d at offset %d, expected a file identifier (257)' % (path, ident, off))
                break
            fver, chars, l_fi = struct.unpack_from('<HBB', buf, off + 16)
            icb_len, icb_lbn, icb_part = struct.unpack_from('<LLH', buf, off + 20)
            l_iu = struct.unpack_from('<H', buf, off + 36)[0]
            total = 38 + l_iu + l_fi
            padded = (total + 3) & ~3
            if off + padded > len(buf):
                u.complain('dir %s: file identifier at %d exceeds the directory data' % (path, off))
                break
            fid = buf[off:off + padded]
            s = (sum(fid[0:4]) + sum(fid[5:16])) & 0xFF
            if s != csum:
                u.complain('dir %s: FID at %d tag checksum wrong' % (path, off))
            if crclen != padded - 16:
                u.complain('dir %s: FID at %d CRC length %d, descriptor needs %d' % (path, off, crclen, padded - 16))
            if 16 + crclen <= len(fid) and crc_fast(fid[16:16 + crclen]) != crc:
                u.complain('dir %s: FID at %d CRC wrong' % (path, off))
            # tag location: block (relative to the partition) in which the FID starts
            blk = None
            acc = 0
            for pos, ln in fe['extents']:
                if off < acc + ln:
                    blk = pos + (off - acc) // SECTOR
                    break
                acc += ln
            if blk is not None and loc != blk:
                u.complain('dir %s: FID at %d tag location %d, expected %d' % (path, off, loc, blk))
            if fid[total:padded].strip(b'\x00'):
                u.complain('dir %s: FID at %d padding not zero' % (path, off))
            if fver != 1:
                u.complain('dir %s: FID at %d file version %d' % (path, off, fver))
            name = osta_name(u, fid[38 + l_iu:38 + l_iu + l_fi], 'dir %s FID at %d' % (path, off))
            is_parent = bool(chars & 8)
            is_dir = bool(chars & 2)
            if first:
                if not is_parent:
                    u.complain('dir %s: first file identifier is not the parent entry' % path)
                elif icb_lbn != parent_lbn:
                    u.complain('dir %s: parent entry points at block %d, parent is at %d' % (path, icb_lbn, parent_lbn))
                if is_parent and l_fi != 0:
                    u.complain('dir %s: parent entry has a name' % path)
            elif is_parent:
                u.complain('dir %s: second parent entry at %d' % (path, off))
            if not is_parent:
                p = (path if path != '/' else '') + '/' + name
                if p in u.tree:
                    u.complain('duplicate UDF path %s' % p)
                if chars & 4:
                    u.complain('dir %s: deleted entry %s' % (path, name))
                if is_dir:
                    nsub += 1
                    if depth > 64:
                        u.complain('directory nesting too deep at %s' % p)
                    else:
                        walk(icb_lbn, p, lbn, depth + 1)
                else:
                    cfe = read_fe(icb_lbn, 'file %s' % p)
                    if cfe is not None:
                        nfiles[0] += 1
                        c = UNode()
                        c.fe_sector = cfe['sector']
                        c.extents = cfe['extents']
                        c.info_len = cfe['info_len']
                        c.link_count = cfe['links']
                        c.embedded = cfe['data'] is not None
                        c.target = None
                        c.fid_off = off
                        raw = fe_bytes(cfe)
                        if cfe['type'] == 12:
                            c.kind = 'sym'
                            c.data = raw
                            c.target = symlink_target(u, raw, p)
                        elif cfe['type'] == 5:
                            c.kind = 'file'
                            c.data = raw
                        else:
                            c.kind = 'type%d' % cfe['type']
                            c.data = raw
                            u.complain('file %s: file type %d' % (p, cfe['type']))
                        u.tree.setdefault(p, c)
                        for pos, ln in cfe['extents']:
                            s = (part_start + pos) * SECTOR
                            if (s, ln) not in data_seen:
                                data_seen[(s, ln)] = p
                                u.layout.append((s, s + ((ln + SECTOR - 1) // SECTOR) * SECTOR, 'file data', 'udf:' + p))
            first = False
            off += padded
        n.data = nsub

    walk(root_lbn, '/', root_lbn, 0)
    u.counts = (nfiles[0], ndirs[0])
    return u


def symlink_target(u, data, where):
    comps = []
    i = 0
    while i < len(data):
        if i + 4 > len(data):
            u.complain('symlink %s: truncated path component' % where)
            break
        t, l = data[i], data[i + 1]
        ident = data[i + 4:i + 4 + l]
        i += 4 + l
        if t == 2:
            comps.append('')
        elif t == 3:
            comps.append('..')
        elif t == 4:
            comps.append('.')
        elif t == 5:
            comps.append(osta_name(u, ident, 'symlink %s' % where))
        else:
            u.complain('symlink %s: component type %d' % (where, t))
            comps.append('?')
    return '/'.join(comps)
