"""
Independent SUSP / RRIP (Rock Ridge 1.09/1.10/1.12) reader on top of r119.
struct only; shares no code with pycdlib.

decode(img, vol) -> RR with
    .present, .version_hint ('1.09-1.10' | '1.12'), .skip
    .logical: {rr_path: Node}  Node(kind, mode, nlink, target, entry)
    .complaints
    .areas: list of (start_byte, end_byte, owner path) continuation areas (for the allocation map)
"""
import struct

SECTOR = 2048


class Node(object):
    __slots__ = ('kind', 'mode', 'nlink', 'target', 'entry', 'name', 'children', 'relocated', 'fields', 'uid', 'gid')


def _both32(buf, off):
    return struct.unpack_from('<L', buf, off)[0], struct.unpack_from('>L', buf, off + 4)[0]


class RR(object):
    def __init__(self):
        self.present = False
        self.complaints = []
        self.logical = {}
        self.areas = []
        self.skip = 0
        self.er_id = None
        self.px_len = None
        self.has_rr_records = False

    def complain(self, m):
        if len(self.complaints) < 200:
            self.complaints.append(m)


def parse_area(rr, img, data, where, depth=0, out=None, ce_seen=None):
    """Parse one system use area (bytes).  Appends (sig, payload-bytes-including-header) to out; follows CE."""
    if out is None:
        out = []
    off = 0
    n = len(data)
    ce = None
    while off < n:
        if n - off < 4:
            if data[off:].strip(b'\x00'):
                rr.complain('%s: %d stray non-zero bytes at the end of a system use area' % (where, n - off))
            break
        sig = data[off:off + 2]
        ln = data[off + 2]
        ver = data[off + 3]
        if sig == b'\x00\x00' and not data[off:].strip(b'\x00'):
            break     # zero padding (continuation areas are not padded by pycdlib, records may have 1 byte)
        if ln < 4 or off + ln > n:
            rr.complain('%s: SUSP entry %r with length %d does not fit the area (%d bytes left)' % (where, sig, ln, n - off))
            break
        if ver != 1:
            rr.complain('%s: SUSP entry %r has version %d' % (where, sig, ver))
        ent = data[off:off + ln]
        if sig == b'ST':
            break
        if sig == b'CE':
            if ln != 28:
                rr.complain('%s: CE entry of length %d' % (where, ln))
            else:
                if ce is not None:
                    rr.complain('%s: two CE entries in one area' % where)
                ce = ent
        else:
            out.append((sig, ent))
        off += ln
    if ce is not None:
        bl = _both32(ce, 4)
        of = _both32(ce, 12)
        le = _both32(ce, 20)
        if bl[0] != bl[1] or of[0] != of[1] or le[0] != le[1]:
            rr.complain('%s: CE both-endian fields disagree %s %s %s' % (where, bl, of, le))
        block, offset, length = bl[0], of[0], le[0]
        if offset + length > SECTOR:
            rr.complain('%s: continuation area (block %d offset %d length %d) leaves its sector' % (where, block, offset, length))
        start = block * SECTOR + offset
        if block == 0 or start + length > len(img):
            rr.complain('%s: continuation area (block %d) outside the image' % (where, block))
        elif depth > 8:
            rr.complain('%s: continuation chain too long' % where)
        else:
            rr.areas.append((start, start + length, where))
            parse_area(rr, img, img[start:start + length], where + ' [CE]', depth + 1, out)
    return out


def fields_of(rr, img, su, where, skip):
    entries = parse_area(rr, img, su[skip:], where)
    f = {'NM': [], 'SL': [], 'sigs': [s for s, e in entries]}
    for sig, e in entries:
        if sig == b'NM':
            f['NM'].append((e[4], e[5:]))
        elif sig == b'SL':
            f['SL'].append(e)
        elif sig == b'PX':
            if len(e) not in (36, 44):
                rr.complain('%s: PX of length %d' % (where, len(e)))
                continue
            vals = []
            for i in range((len(e) - 4) // 8):
                a, b = _both32(e, 4 + 8 * i)
                if a != b:
                    rr.complain('%s: PX both-endian field %d disagrees' % (where, i))
                vals.append(a)
            f['PX'] = vals
            f['PXlen'] = len(e)
        elif sig in (b'CL', b'PL'):
            a, b = _both32(e, 4)
            if a != b or len(e) != 12:
                rr.complain('%s: %s malformed' % (where, sig.decode()))
            f[sig.decode()] = a
        elif sig == b'RE':
            f['RE'] = True
        elif sig == b'TF':
            f['TF'] = e
        elif sig == b'SP':
            f['SP'] = e
        elif sig == b'ER':
            f['ER'] = e
        elif sig == b'RR':
            f['RR'] = e
        elif sig in (b'PN', b'SF', b'ES', b'AL', b'PD'):
            f[sig.decode()] = e
        else:
            rr.complain('%s: unknown SUSP entry %r' % (where, sig))
    return f


def nm_name(rr, f, where):
    parts = []
    cont = False
    for i, (flags, content) in enumerate(f['NM']):
        if flags & 2:
            parts.append(b'.')
        elif flags & 4:
            parts.append(b'..')
        else:
            parts.append(content)
        cont = bool(flags & 1)
        if not cont and i != len(f['NM']) - 1:
            rr.complain('%s: NM entry after the final (non-continued) one' % where)
    if cont:
        rr.complain('%s: last NM entry has the CONTINUE flag' % where)
    return b''.join(parts) if f['NM'] else None


def sl_target(rr, f, where):
    comps = []
    cur = b''
    cont_comp = False
    absolute = False
    last_sl_cont = False
    for i, e in enumerate(f['SL']):
        flags = e[4]
        off = 5
        if last_sl_cont is False and i > 0:
            rr.complain('%s: SL entry follows one without CONTINUE' % where)
        while off < len(e):
            if off + 2 > len(e):
                rr.complain('%s: truncated SL component header' % where)
                break
            cf, cl = e[off], e[off + 1]
            content = e[off + 2:off + 2 + cl]
            if off + 2 + cl > len(e):
                rr.complain('%s: SL component exceeds the entry' % where)
                break
            off += 2 + cl
            if cf & 8:
                piece = None
                if cont_comp:
                    rr.complain('%s: ROOT component continues another' % where)
                comps.append(('root', b''))
                continue
            if cf & 2:
                piece = b'.'
            elif cf & 4:
                piece = b'..'
            else:
                piece = content
            cur += piece
            if cf & 1:
                cont_comp = True
            else:
                comps.append(('name', cur))
                cur = b''
                cont_comp = False
        last_sl_cont = bool(flags & 1)
    if cont_comp or cur:
        rr.complain('%s: SL ends inside a continued component' % where)
    if last_sl_cont:
        rr.complain('%s: last SL entry has the CONTINUE flag' % where)
    # assemble
    out = []
    for i, (k, v) in enumerate(comps):
        if k == 'root':
            if i == 0:
                out.append(b'')
            else:
                out.append(b'')
        else:
            out.append(v)
    if len(out) == 1 and comps[0][0] == 'root':
        return b'/'
    return b'/'.join(out)


def decode(img, vol):
    rr = RR()
    tree = vol.trees.get('iso')
    if tree is None or tree.root is None or tree.root.children is None:
        return rr
    root = tree.root
    xa_skip = 14 if getattr(vol, 'xa', False) else 0
    dot_su = root.dot_su or b''
    body = dot_su[xa_skip:]
    if body[:2] != b'SP':
        return rr
    rr.present = True
    if len(body) < 7 or body[2] != 7 or body[4:6] != b'\xbe\xef':
        rr.complain('root ".": malformed SP entry %r' % body[:7])
        return rr
    rr.skip = body[6]
    # skip applies to every area except the root "." one; with XA pycdlib records skip=14? take as given
    f = fields_of(rr, img, dot_su, 'rec@%s / "."' % root.dot_off, xa_skip)
    if 'ER' not in f:
        rr.complain('root ".": no ER entry')
    else:
        e = f['ER']
        lid, ldes, lsrc = e[4], e[5], e[6]
        rr.er_id = e[8:8 + lid]
        if 8 + lid + ldes + lsrc != len(e):
            rr.complain('ER lengths do not add up')
    if 'PX' in f:
        rr.px_len = f['PXlen']
    rr.has_rr_records = 'RR' in f
    skip = rr.skip

    by_extent = {}
    for d in tree.dirs_in_order:
        by_extent.setdefault(d.extent, d)

    # per-directory "." and ".." fields are needed for PL / link counts: re-read records
    def dir_dot_fields(d):
        is_root = d is root
        fd = fields_of(rr, img, d.dot_su or b'', 'rec@%s %s "."' % (d.dot_off, d.path), xa_skip if is_root else skip)
        fdd = fields_of(rr, img, d.dotdot_su or b'', 'rec@%s %s ".."' % (d.dotdot_off, d.path), skip)
        return fd, fdd

    nodes = {}

    def mk(kind, f, ent, where):
        n = Node()
        n.kind = kind
        n.entry = ent
        n.fields = f
        n.mode = f['PX'][0] if 'PX' in f else None
        n.nlink = f['PX'][1] if 'PX' in f else None
        n.uid = f['PX'][2] if 'PX' in f else None
        n.target = None
        n.children = []
        n.relocated = False
        if 'PX' not in f:
            rr.complain('%s: no PX entry' % where)
        elif rr.px_len is not None and f['PXlen'] != rr.px_len:
            rr.complain('%s: PX length %d differs from the root\'s %d' % (where, f['PXlen'], rr.px_len))
        return n

    dotcache = {}

    def walk(d, lpath, logical_parent_dir):
        """d: physical r119 directory Entry whose children are listed under logical path lpath."""
        fd, fdd = dir_dot_fields(d)
        dotcache[id(d)] = (fd, fdd)
        for c in d.children:
            where = 'rec@%d %s' % (c.rec_offsets[0], c.path)
            f = fields_of(rr, img, c.su, where, skip)
            name = nm_name(rr, f, where)
            if name is None:
                rr.complain('%s: no NM entry' % where)
                name = c.raw_name
            try:
                sname = name.decode('utf-8')
            except UnicodeDecodeError:
                sname = name.decode('latin-1')
            p = (lpath if lpath != '/' else '') + '/' + sname
            if 'RE' in f:
                # physically here, logically elsewhere (reached through CL)
                if not c.is_dir:
                    rr.complain('%s: RE on a non-directory' % where)
                continue
            if 'CL' in f:
                tgt = by_extent.get(f['CL'])
                if tgt is None:
                    rr.complain('%s: CL points at extent %d which is no directory' % (where, f['CL']))
                    continue
                # the relocated directory's own record (in its physical parent) carries the attributes
                # find the physical record of the target in its physical parent to read NM/PX/RE
                prec = tgt
                pf = fields_of(rr, img, prec.su, 'rec@%d %s' % (prec.rec_offsets[0], prec.path), skip)
                if 'RE' not in pf:
                    rr.complain('%s: CL target %s has no RE entry' % (where, prec.path))
                pname = nm_name(rr, pf, where)
                if pname != name:
                    rr.complain('%s: CL placeholder name %r differs from relocated directory name %r' % (where, name[:40], (pname or b'')[:40]))
                n = mk('dir', pf, tgt, where)
                n.relocated = True
                n.name = sname
                if p in nodes:
                    rr.complain('duplicate Rock Ridge path %s' % p)
                nodes[p] = n
                # PL of the relocated directory's ".." must point at the logical parent
                walk(tgt, p, d)
                fd2, fdd2 = dotcache[id(tgt)]
                if 'PL' not in fdd2:
                    rr.complain('relocated %s: ".." has no PL entry' % tgt.path)
                elif fdd2['PL'] != d.extent:
                    rr.complain('relocated %s: PL points at %d, logical parent is at %d' % (tgt.path, fdd2['PL'], d.extent))
                continue
            if c.is_dir:
                n = mk('dir', f, c, where)
                n.name = sname
                if p in nodes:
                    rr.complain('duplicate Rock Ridge path %s' % p)
                nodes[p] = n
                walk(c, p, d)
            else:
                if f['SL']:
                    n = mk('sym', f, c, where)
                    t = sl_target(rr, f, where)
                    try:
                        n.target = t.decode('utf-8')
                    except UnicodeDecodeError:
                        n.target = t.decode('latin-1')
                else:
                    n = mk('file', f, c, where)
                n.name = sname
                if p in nodes:
                    rr.complain('duplicate Rock Ridge path %s' % p)
                nodes[p] = n

    rootnode = Node()
    rootnode.kind = 'dir'
    rootnode.entry = root
    rootnode.fields = f
    rootnode.mode = f['PX'][0] if 'PX' in f else None
    rootnode.nlink = f['PX'][1] if 'PX' in f else None
    rootnode.target = None
    rootnode.relocated = False
    rootnode.name = ''
    nodes['/'] = rootnode
    walk(root, '/', None)
    rr.logical = nodes
    rr.dotcache = dotcache
    rr.not_files = set()
    for d in tree.dirs_in_order:
        for c in d.children:
            if not c.is_dir:
                cf = fields_of(RR(), img, c.su, '', skip)
                if 'CL' in cf or cf['SL']:
                    rr.not_files.add(id(c))

    # link counts and "."/".." agreement
    for p, n in nodes.items():
        if n.kind != 'dir':
            if n.nlink is not None and n.nlink != 1:
                rr.complain('%s: link count %d for a non-directory' % (p, n.nlink))
            continue
        d = n.entry
        if id(d) not in dotcache:
            continue
        fd, fdd = dotcache[id(d)]
        # physical subdirectory count: child directories physically in d (including RE ones and RR_MOVED) plus CL placeholders
        sub = 0
        for c in d.children:
            cf = None
            if c.is_dir:
                sub += 1
            else:
                cf = fields_of(RR(), img, c.su, '', skip)
                if 'CL' in cf:
                    sub += 1
        want = 2 + sub
        if 'PX' in fd:
            if fd['PX'][1] != want:
                rr.complain('dir %s: "." link count %d, expected %d (2 + %d subdirectories)' % (p, fd['PX'][1], want, sub))
            if p != '/' and n.nlink is not None and fd['PX'][1] != n.nlink:
                rr.complain('dir %s: entry link count %d differs from its "." (%d)' % (p, n.nlink, fd['PX'][1]))
            if p != '/' and n.mode is not None and fd['PX'][0] != n.mode:
                rr.complain('dir %s: entry mode %o differs from its "." (%o)' % (p, n.mode, fd['PX'][0]))
        else:
            rr.complain('dir %s: "." has no PX' % p)
        # ".." must agree with the "." of the physical parent
        par = d.parent if d.parent is not None else d
        if id(par) in dotcache and 'PX' in fdd and 'PX' in dotcache[id(par)][0]:
            pd = dotcache[id(par)][0]['PX']
            if fdd['PX'][1] != pd[1]:
                rr.complain('dir %s: ".." link count %d differs from the parent\'s "." (%d)' % (p, fdd['PX'][1], pd[1]))
            if fdd['PX'][0] != pd[0]:
                rr.complain('dir %s: ".." mode %o differs from the parent\'s "." (%o)' % (p, fdd['PX'][0], pd[0]))
    # continuation areas must not overlap
    ar = sorted(set(rr.areas))
    for (s1, e1, w1), (s2, e2, w2) in zip(ar, ar[1:]):
        if s2 < e1 and (s1, e1) != (s2, e2):
            rr.complain('continuation areas overlap: %s [%d,%d) and %s [%d,%d)' % (w1, s1, e1, w2, s2, e2))
    starts = {}
    for s, e, w in ar:
        if (s, e) in starts and starts[(s, e)] != w and e > s:
            rr.complain('continuation area [%d,%d) shared by %s and %s' % (s, e, starts[(s, e)], w))
        starts[(s, e)] = w
    return rr
