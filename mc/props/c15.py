"""C15 - Hostile or damaged images: open terminates with a documented error (DESIGN.md section 4, C15)."""
import io
import resource
import signal
import struct
import time

from mc import env, explore, ops
from mc.driver import cfg_name
from mc.framework import Result
from mc.readers import r167
from mc.vdev import Budget, BudgetFile

PROP = 'C15'
LEVEL = 'fault_enumeration'
ASSUMPTIONS = [
    'seed images are produced by the library itself (no foreign corpus is vendored)',
    'fault model: every truncation point (every byte inside metadata sectors, sector boundaries elsewhere); every byte of every non-zero metadata sector x '
    '{0x00, 0xFF, ^0x01, ^0x80}; every both-byte-order 32/16-bit field and every little-endian word of UDF descriptors x a hostile menu '
    '(UDF tags re-sealed and left unsealed); pairs of pointer faults; shared directory extents without a cycle on a 24-level chain (69 placements)',
    'I/O budget: calls <= 50 x the calls of the uncorrupted seed + 2000, bytes <= 64 x image size + 1 MiB; 10 s alarm; address space limited to 4 GiB',
]
SECTOR = 2048


def seeds():
    """name -> (cfg, steps)"""
    out = []

    def S(*o):
        return [[x] for x in o if x is not None]
    c = ops.mk(1)
    out.append(('plain', c, S(ops.add_dir(c, 'D1'), ops.add_fp(c, 'A', '/', 'c2049'), ops.add_fp(c, 'AB', 'D1', 'c1'),
                              ['add_eltorito', {'bootfile_path': '/A.;1', 'boot_info_table': True}])))
    c = ops.mk(1, rr='1.09')
    out.append(('rr109-ce-symlink-reloc', c, S(ops.add_fp(c, 'LONGRR', '/', 'c1'), ops.add_fp(c, 'A', '/', 'c1'),
                                               ['add_symlink', {'symlink_path': '/S.;1', 'rr_symlink_name': 's', 'rr_path': '/'.join(['x' * 120, 'y' * 120, '..', 'z'])}])
                + [ops.deep_chain_step(c, 9)]))
    c = ops.mk(3, rr='1.12', xa=True)
    out.append(('rr112-xa', c, S(ops.add_dir(c, 'D1'), ops.add_fp(c, 'A', 'D1', 'c1'), ops.symlink_ops(c)[0])))
    c = ops.mk(3, joliet=3)
    out.append(('joliet-bigdir', c, [ops.grow_dir_step(c, '/')] + S(ops.add_dir(c, 'D1'))))
    c = ops.mk(4)
    out.append(('level4-dup-pvd', c, S(ops.add_dir(c, 'D1'), ops.add_fp(c, 'A', '/', 'c1'), ['duplicate_pvd', {}])))
    c = ops.mk(3, joliet=3)
    out.append(('eltorito-sections-bit', c, S(ops.add_fp(c, 'A', '/', 'boot'), ops.add_fp(c, 'B', '/', 'c4097', 'iso'),
                                              ['add_eltorito', {'bootfile_path': '/A.;1', 'boot_info_table': True, 'boot_load_size': 4}],
                                              ['add_eltorito', {'bootfile_path': '/B.;1', 'efi': True, 'platform_id': 0xef}])))
    c = ops.mk(1)
    out.append(('hybrid-efi-mac', c, S(ops.add_fp(c, 'A', '/', 'boot'), ops.add_fp(c, 'B', '/', 'c5000'), ops.add_fp(c, 'AB', '/', 'c9000'),
                                       ['add_eltorito', {'bootfile_path': '/A.;1', 'boot_load_size': 4}],
                                       ['add_eltorito', {'bootfile_path': '/B.;1', 'efi': True, 'platform_id': 0xef}],
                                       ['add_eltorito', {'bootfile_path': '/AB.;1', 'efi': True, 'platform_id': 0xef}],
                                       ['add_isohybrid', {'mac': True, 'geometry_heads': 2, 'geometry_sectors': 8}])))
    c = ops.mk(3, udf=True)
    out.append(('udf', c, S(ops.add_dir(c, 'D1'), ops.add_fp(c, 'A', 'D1', 'c1'), ops.add_fp(c, 'B', '/', 'c0'), ops.add_fp(c, 'UNI', '/', 'c2049'),
                            ops.symlink_ops(c)[-1]) + [ops.grow_fid_step(c, n=46)]))
    c = ops.mk(3, udf=True)
    out.append(('udf-small', c, S(ops.add_dir(c, 'D1'), ops.add_fp(c, 'A', 'D1', 'c1'), ops.symlink_ops(c)[-1])))
    c = ops.mk(2)
    out.append(('big-path-table', c, [ops.grow_pt_step(c)]))
    return out


def build_seed(name):
    for n, cfg, steps in seeds():
        if n == name:
            impl, info = explore.run_history(cfg, steps)
            assert impl is not None, (name, info)
            img = impl.write()
            if name == 'plain':
                pass
            return img
    raise KeyError(name)


def multi_extent_seed():
    """A file recorded as two sections (multi-extent), produced by editing a small image (4 GiB cannot be stored)."""
    c = ops.mk(3)
    impl, info = explore.run_history(c, [[ops.add_fp(c, 'A', '/', 'c4097')]])
    img = bytearray(impl.write())
    # root directory: find the record of A.;1 and duplicate it as (first 2048 bytes, flag 0x80) + (rest)
    root = struct.unpack_from('<L', img, 16 * SECTOR + 158)[0] * SECTOR
    off = root
    while img[off]:
        ln = img[off]
        if img[off + 33:off + 33 + img[off + 32]] == b'A.;1':
            rec = bytes(img[off:off + ln])
            ext = struct.unpack_from('<L', rec, 2)[0]
            r1 = bytearray(rec)
            struct.pack_into('<L', r1, 10, 2048)
            struct.pack_into('>L', r1, 14, 2048)
            r1[25] |= 0x80
            r2 = bytearray(rec)
            struct.pack_into('<L', r2, 2, ext + 1)
            struct.pack_into('>L', r2, 6, ext + 1)
            struct.pack_into('<L', r2, 10, 4097 - 2048)
            struct.pack_into('>L', r2, 14, 4097 - 2048)
            img[off:off + 2 * ln] = bytes(r1) + bytes(r2)
            break
        off += ln
    return bytes(img)


DAG_LEVELS = 24


def dag_seed():
    """Interchange level 4, a chain /X/X/.../X of DAG_LEVELS directories, each level with an empty sibling Y."""
    iso = env.PyCdlib()
    iso.new(interchange_level=4)
    p = ''
    for k in range(DAG_LEVELS):
        iso.add_directory(p + '/X')
        iso.add_directory(p + '/Y')
        p += '/X'
    o = io.BytesIO()
    iso.write_fp(o)
    iso.close()
    return o.getvalue()


def dag_levels(img):
    """[(offset of the X record, offset of the Y record)] per level, following the X chain from the root."""
    out = []
    ext = struct.unpack_from('<L', img, 16 * SECTOR + 158)[0]
    for k in range(DAG_LEVELS):
        off, found = ext * SECTOR, {}
        while img[off]:
            ident = bytes(img[off + 33:off + 33 + img[off + 32]])
            if ident in (b'X', b'Y'):
                found[ident] = off
            off += img[off]
        out.append((found[b'X'], found[b'Y']))
        ext = struct.unpack_from('<L', img, found[b'X'] + 2)[0]
    return out


def dag_faults(img):
    """Shared directory extents without a cycle: the sibling Y is made a second name of the extent of X (extent and length, both byte
    orders) at one level, at every level from j on, and at every level up to j.  A walker that does not remember extents it has
    queued visits the chain 2^levels times."""
    lv = dag_levels(img)
    sets = [('level %d' % j, [j]) for j in range(DAG_LEVELS)]
    sets += [('levels %d..%d' % (j, DAG_LEVELS - 1), list(range(j, DAG_LEVELS))) for j in range(DAG_LEVELS - 1)]
    sets += [('levels 0..%d' % j, list(range(0, j + 1))) for j in range(1, DAG_LEVELS - 1)]
    for what, levels in sets:
        b = bytearray(img)
        for j in levels:
            x, y = lv[j]
            b[y + 2:y + 18] = b[x + 2:x + 18]
        yield 'directory DAG: Y shares the extent of X at ' + what, bytes(b)


_SEED_CACHE = {}


def seed_image(name):
    if name not in _SEED_CACHE:
        _SEED_CACHE[name] = multi_extent_seed() if name == 'multi-extent' else dag_seed() if name == 'dag-chain' else build_seed(name)
    return _SEED_CACHE[name]


SEED_NAMES = [n for n, c, s in seeds()] + ['multi-extent']


def metadata_sectors(img, name):
    """Sectors that hold metadata: everything before the first file data that is not all zero (decoders tell where file data is)."""
    from mc import decode as dec
    d = dec.decode_iso(img)
    u = r167.decode(img)
    data = set()
    for o in d.vol.layout:
        if o.kind == 'file data' and 'BOOT.CAT' not in o.label and 'boot.cat' not in o.label:
            data.update(range(o.start // SECTOR, o.end // SECTOR))
    for s, e, k, l in u.layout:
        if k == 'file data':
            data.update(range(s // SECTOR, e // SECTOR))
    # the first sector of an El Torito boot image is parsed too (boot info table)
    from mc.readers import rboot
    b = rboot.decode(img)
    for e in b.entries:
        data.discard(e['rba'])
    out = []
    for s in range(len(img) // SECTOR):
        if s in data:
            continue
        if img[s * SECTOR:(s + 1) * SECTOR].strip(b'\x00'):
            out.append(s)
    return out


class Alarm(BaseException):
    pass


def _alarm(sig, frm):
    raise Alarm()


def attempt(data, base_calls, res=None):
    """open_fp of the bytes under budget.  Returns None (fine) or (cls, msg)."""
    fp = BudgetFile(data, 50 * base_calls + 2000, 64 * len(data) + (1 << 20))
    iso = env.PyCdlib()
    signal.signal(signal.SIGALRM, _alarm)
    signal.alarm(10)
    try:
        iso.open_fp(fp)
        outcome = 'opened'
    except env.DOCUMENTED as e:
        outcome = type(e).__name__
    except Budget as e:
        site = explore.exc_site(e)[1]
        return ('I/O budget exceeded in %s' % site, str(e))
    except Alarm as e:
        site = explore.exc_site(e)[1]
        return ('10 s alarm in %s' % site, 'open_fp did not return within 10 s')
    except MemoryError as e:
        return ('MemoryError@%s' % explore.exc_site(e)[1], 'memory out of proportion')
    except RecursionError as e:
        return ('RecursionError@%s' % explore.exc_site(e)[1], 'recursion')
    except Exception as e:
        t, site = explore.exc_site(e)
        return ('%s@%s' % (t, site), '%s: %s' % (t, str(e)[:100]))
    finally:
        signal.alarm(0)
    if res is not None:
        res.add('outcomes', outcome)
        res.count('outcome_' + outcome)
    return None


def base_calls_of(img):
    fp = BudgetFile(img, 10 ** 9, 10 ** 12)
    iso = env.PyCdlib()
    iso.open_fp(fp)
    return fp.calls


def hostile32(v, own, root, nsec):
    return sorted(set(x & 0xffffffff for x in (0, 1, 2, v - 1, v + 1, 0xffffffff, 0x7fffffff, 0x80000000, own, root, 16, nsec, nsec - 1, v * 2048, v + 0x10000, v + 2048, v * 2)))


def hostile16(v):
    return sorted(set(x & 0xffff for x in (0, 1, v - 1, v + 1, 0xffff, 0x7fff, 0x8000)))


def reseal(buf, off):
    """Recompute CRC and checksum of the UDF descriptor tag at byte offset off."""
    crclen = struct.unpack_from('<H', buf, off + 10)[0]
    if off + 16 + crclen <= len(buf):
        struct.pack_into('<H', buf, off + 8, r167.crc_fast(bytes(buf[off + 16:off + 16 + crclen])))
    buf[off + 4] = (sum(buf[off:off + 4]) + sum(buf[off + 5:off + 16])) & 0xff


def field_faults(img, meta):
    """(description, mutated image) for both-endian pairs and UDF little-endian words."""
    nsec = len(img) // SECTOR
    root = struct.unpack_from('<L', img, 16 * SECTOR + 158)[0]
    from mc.readers import rboot
    boot_sectors = set(e['rba'] for e in rboot.decode(img).entries)
    for s in meta:
        base = s * SECTOR
        sec = img[base:base + SECTOR]
        ident = struct.unpack_from('<H', sec, 0)[0]
        is_udf = s >= 32 and ident in (1, 2, 4, 5, 6, 7, 8, 9, 256, 257, 261, 266) and sec[2:4] in (b'\x02\x00', b'\x03\x00')
        if s in boot_sectors:
            for o in range(8, 64, 4):
                v = struct.unpack_from('<L', sec, o)[0]
                for h in hostile32(v, s, root, nsec):
                    if h != v:
                        b = bytearray(img)
                        struct.pack_into('<L', b, base + o, h)
                        yield ('boot s%d+%d=%#x' % (s, o, h), bytes(b))
            continue
        if is_udf:
            for o in range(16, 512, 4):
                v = struct.unpack_from('<L', sec, o)[0]
                if v == 0 and o > 200:
                    continue
                for h in hostile32(v, s, root, nsec)[:9]:
                    if h == v:
                        continue
                    for seal in (True, False):
                        b = bytearray(img)
                        struct.pack_into('<L', b, base + o, h)
                        if seal:
                            reseal(b, base)
                        yield ('udf s%d+%d=%#x %s' % (s, o, h, 'sealed' if seal else 'unsealed'), bytes(b))
            continue
        o = 0
        while o + 8 <= SECTOR:
            le = struct.unpack_from('<L', sec, o)[0]
            be = struct.unpack_from('>L', sec, o + 4)[0]
            if le == be and le != 0:
                for h in hostile32(le, s, root, nsec):
                    if h == le:
                        continue
                    b = bytearray(img)
                    struct.pack_into('<L', b, base + o, h)
                    struct.pack_into('>L', b, base + o + 4, h)
                    yield ('pair32 s%d+%d=%#x' % (s, o, h), bytes(b))
            le16 = struct.unpack_from('<H', sec, o)[0]
            be16 = struct.unpack_from('>H', sec, o + 2)[0]
            if le16 == be16 and le16 != 0 and le16 < 0x100:
                for h in hostile16(le16):
                    if h == le16:
                        continue
                    b = bytearray(img)
                    struct.pack_into('<H', b, base + o, h)
                    struct.pack_into('>H', b, base + o + 2, h)
                    yield ('pair16 s%d+%d=%#x' % (s, o, h), bytes(b))
            o += 1


def pointer_fields(img, meta):
    nsec = len(img) // SECTOR
    out = []
    for s in meta:
        base = s * SECTOR
        sec = img[base:base + SECTOR]
        o = 0
        while o + 8 <= SECTOR:
            le = struct.unpack_from('<L', sec, o)[0]
            be = struct.unpack_from('>L', sec, o + 4)[0]
            if le == be and 16 < le < nsec:
                out.append((base + o, le, s))
                o += 8
            else:
                o += 1
    return out


def tasks(tier):
    names = SEED_NAMES if tier == 'thorough' else ['plain', 'rr109-ce-symlink-reloc', 'udf-small']
    out = []
    for n in names:
        img = seed_image(n)
        meta = metadata_sectors(img, n)
        out.append({'seed': n, 'kind': 'truncate'})
        out.append({'seed': n, 'kind': 'fields'})
        out.append({'seed': n, 'kind': 'pairs'})
        for chunk in range(0, len(meta), 3):
            if tier == 'thorough' or chunk % 2 == 0 or True:
                out.append({'seed': n, 'kind': 'bytes', 'sectors': meta[chunk:chunk + 3], 'values': 4 if tier == 'thorough' else 2})
    out.append({'seed': 'dag-chain', 'kind': 'dag'})
    return out


def run_task(task):
    res = Result()
    try:
        resource.setrlimit(resource.RLIMIT_AS, (4 << 30, resource.RLIM_INFINITY))
    except (ValueError, OSError):
        pass
    name = task['seed']
    img = seed_image(name)
    meta = metadata_sectors(img, name) if task['kind'] != 'dag' else []
    base = base_calls_of(img)
    res.add('seeds', name)

    def rec(r, case):
        res.count('evaluations')
        if r is not None:
            res.violation('open_fp terminates promptly with success or a documented exception', r[0], '%s: %s' % (case.get('what', ''), r[1]), case)
    if task['kind'] == 'truncate':
        ms = set(meta)
        points = set()
        for s in range(len(img) // SECTOR + 1):
            points.add(s * SECTOR)
            if s in ms:
                points.update(range(s * SECTOR, (s + 1) * SECTOR))
        for n in sorted(points):
            rec(attempt(img[:n], base, res), {'seed': name, 'kind': 'truncate', 'at': n, 'what': 'truncated to %d bytes' % n, 'size': 1})
    elif task['kind'] == 'bytes':
        for s in task['sectors']:
            for o in range(SECTOR):
                v = img[s * SECTOR + o]
                vals = [0x00, 0xFF, v ^ 0x01, v ^ 0x80][:task['values']] if task['values'] == 4 else [0xFF if v != 0xFF else 0x00, v ^ 0x01]
                for nv in vals:
                    if nv == v:
                        continue
                    b = bytearray(img)
                    b[s * SECTOR + o] = nv
                    rec(attempt(bytes(b), base, res), {'seed': name, 'kind': 'byte', 'at': s * SECTOR + o, 'value': nv,
                                                       'what': 'byte %d (sector %d offset %d) = %#x' % (s * SECTOR + o, s, o, nv), 'size': 1})
    elif task['kind'] == 'fields':
        for what, data in field_faults(img, meta):
            rec(attempt(data, base, res), {'seed': name, 'kind': 'field', 'what': what, 'size': 1})
    elif task['kind'] == 'dag':
        for what, data in dag_faults(img):
            rec(attempt(data, base, res), {'seed': name, 'kind': 'dag', 'what': what, 'size': 1})
    else:
        pf = pointer_fields(img, meta)
        root = struct.unpack_from('<L', img, 16 * SECTOR + 158)[0]
        for i in range(len(pf)):
            for j in range(i + 1, len(pf)):
                (o1, v1, s1), (o2, v2, s2) = pf[i], pf[j]
                for a in sorted(set((root, s1, v2))):
                    for bb in sorted(set((root, s2, v1))):
                        if a == v1 and bb == v2:
                            continue
                        b = bytearray(img)
                        struct.pack_into('<L', b, o1, a)
                        struct.pack_into('>L', b, o1 + 4, a)
                        struct.pack_into('<L', b, o2, bb)
                        struct.pack_into('>L', b, o2 + 4, bb)
                        rec(attempt(bytes(b), base, res), {'seed': name, 'kind': 'pair', 'what': 'pointers @%d=%d and @%d=%d' % (o1, a, o2, bb), 'size': 2})
    res.sample({'seed': name, 'kind': task['kind'], 'image_bytes': len(img), 'metadata_sectors': len(meta)})
    return res


def check_case(case):
    img = seed_image(case['seed'])
    base = base_calls_of(img)
    if case['kind'] == 'truncate':
        data = img[:case['at']]
    elif case['kind'] == 'byte':
        b = bytearray(img)
        b[case['at']] = case['value']
        data = bytes(b)
    else:
        meta = metadata_sectors(img, case['seed']) if case['kind'] != 'dag' else []
        data = None
        if case['kind'] == 'dag':
            for what, d in dag_faults(img):
                if what == case['what']:
                    data = d
                    break
        elif case['kind'] == 'field':
            for what, d in field_faults(img, meta):
                if what == case['what']:
                    data = d
                    break
        else:
            pf = pointer_fields(img, meta)
            import re
            m = re.match(r'pointers @(\d+)=(\d+) and @(\d+)=(\d+)', case['what'])
            o1, a, o2, bb = [int(x) for x in m.groups()]
            b = bytearray(img)
            struct.pack_into('<L', b, o1, a)
            struct.pack_into('>L', b, o1 + 4, a)
            struct.pack_into('<L', b, o2, bb)
            struct.pack_into('>L', b, o2 + 4, bb)
            data = bytes(b)
        if data is None:
            return []
    r = attempt(data, base)
    if r is None:
        return []
    return [{'clause': 'open_fp terminates promptly with success or a documented exception', 'cls': r[0], 'msg': r[1]}]


MINIMISE = False


def coverage(tier, r):
    return {
        'evaluations': r.n.get('evaluations', 0),
        'distinct_nontrivial': len(r.sets.get('outcomes', ())) + len(r.viol),
        'rule': 'seed images x {every truncation point, every byte of every non-zero metadata sector x 2 (quick) or 4 (thorough) values, every both-endian field and UDF word x hostile menu '
                '(sealed and unsealed), pairs of pointer fields} + a 24-level directory chain whose sibling records are made to share extents (a DAG, no cycle) at one level / a suffix / a prefix of levels.  distinct = distinct documented outcomes + distinct (exception type or budget, innermost pycdlib function) classes',
        'seeds': sorted(r.sets.get('seeds', ())),
        'outcomes': dict((k[8:], v) for k, v in r.n.items() if k.startswith('outcome_')),
        'exhaustive': True,
    }
