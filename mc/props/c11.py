"""C11 - El Torito points at the right bytes (DESIGN.md section 4): MASTER-ENUM histories + growth chains with the oracles.oracle_boot oracle."""
from mc import master, ops, oracles
from mc.props import _std

_std.install(globals(), 'C11', 'model_checking', [oracles.oracle_boot], _std.default_bounds(),
             ['independent decoders rboot + r119 are trusted base'] + ['alphabet sigma1 of mc/ops.py and the depth bounds listed in the evidence'])
