"""C11 - El Torito points at the right bytes (DESIGN.md section 4): MASTER-ENUM histories + El Torito alphabet with the rboot oracle."""
from mc import master, ops, oracles
from mc.props import _std

B = _std.default_bounds()
CF = [ops.mk(1), ops.mk(3, joliet=3, rr='1.09'), ops.mk(3, joliet=3, udf=True), ops.mk(4, joliet=2, rr='1.12', udf=True, xa=True)]
B['quick'].append(('alpha', 'sigma11', CF[:3], 5, 2))
B['thorough'].append(('alpha', 'sigma11', CF, 6, 2))
B['thorough'].append(('alpha', 'sigma11_big', CF[1:3], 5, 2))

_std.install(globals(), 'C11', 'model_checking', [oracles.oracle_boot, master.oracle_roundtrip], B,
             ['independent decoders rboot + r119 are trusted base',
              'the roundtrip oracle supplies "removing El Torito removes all of this and nothing else" (model equality after rm_eltorito)',
              'alphabet sigma1 / sigma11 of mc/ops.py and the depth bounds listed in the evidence'],
             alphabets={'sigma11': lambda m: ops.sigma11(m, 'quick'), 'sigma11_big': lambda m: ops.sigma11(m, 'thorough')})
