"""C05 - Re-mastering is a fixpoint (DESIGN.md section 4): MASTER-ENUM histories + growth chains + El Torito / hybrid histories
with the three-generation differential oracle."""
import itertools

from mc import master, ops, oracles
from mc.framework import Result
from mc.props import _std, c12


def hybrid_cases(tier):
    geos = [(32, 64), (1, 1), (8, 4), (63, 255)] if tier == 'thorough' else [(32, 64), (8, 4)]
    cfgs = [ops.mk(1), ops.mk(3, joliet=3, rr='1.09'), ops.mk(3, udf=True)] if tier == 'thorough' else [ops.mk(1), ops.mk(3, joliet=3, rr='1.09')]
    for cfg in cfgs:
        for mode in ('plain', 'efi', 'efimac'):
            for (s, h) in geos:
                for po in (0, 64):
                    for pe in (1, 4):
                        hyb = {'geometry_sectors': s, 'geometry_heads': h, 'part_offset': po, 'part_entry': pe, 'mbr_id': 0x1234abcd}
                        steps, base, hy = c12.history(cfg, mode, hyb=hyb)
                        yield {'extra': True, 'cfg': cfg, 'steps': steps}
            for sizes in itertools.permutations(('c5000', 'c9000', 'c2049'), 2):
                if mode != 'plain':
                    steps, base, hy = c12.history(cfg, mode, sizes=sizes, hyb={})
                    yield {'extra': True, 'cfg': cfg, 'steps': steps}


def payload_cases(tier):
    """Rock Ridge name / symlink-target shapes of the C08 sweep (entries split over several SL / NM records and the
    continuation area), UDF and Joliet names of the C10 / C09 sweeps: parse . record must be the identity for them too."""
    from mc.props import c08
    cfgs = c08.CFGS[:2] if tier == 'quick' else c08.CFGS
    for cfg in cfgs:
        for kind, payload in c08.sweep_cases(tier):
            n = len(payload) if isinstance(payload, str) else len(payload[1])
            if tier == 'quick' and kind != 'both' and not (90 <= n <= 140 or n % 7 == 0 or n < 6):
                continue
            yield {'extra': True, 'cfg': cfg, 'steps': c08.build_steps(cfg, 'N.;1', kind, payload)}


def shared_boot_cases(tier):
    """One boot file referenced by two El Torito entries (initial entry + section), longer than the first entry's load size says,
    with and without its ISO9660 name (the length of a boot file that the ISO9660 walk does not see is reconstructed late in the parse)."""
    cfgs = [ops.mk(3, joliet=3), ops.mk(3, udf=True)] + ([ops.mk(3, joliet=3, rr='1.09', udf=True), ops.mk(1)] if tier == 'thorough' else [])
    firsts = [{'boot_load_size': 4}, {}, {'boot_load_size': 1, 'platform_id': 1}]
    seconds = [{'efi': True, 'platform_id': 0xef, 'bootable': False}, {'boot_load_size': 4, 'platform_id': 0xef}, None]
    for cfg in cfgs:
        for content in ('boot5120', 'boot4097') if tier == 'thorough' else ('boot5120',):
            for first in firsts:
                for second in seconds:
                    for hide in (True, False):
                        steps = [[ops.add_fp(cfg, 'A', '/', content)], [['add_eltorito', dict(first, bootfile_path='/A.;1')]]]
                        if second is not None:
                            steps.append([['add_eltorito', dict(second, bootfile_path='/A.;1')]])
                        if hide:
                            steps.append([['rm_hard_link', {'iso_path': '/A.;1'}]])
                        yield {'extra': True, 'cfg': cfg, 'steps': steps}


def extra_tasks(tier):
    cases = list(hybrid_cases(tier)) + list(payload_cases(tier)) + list(shared_boot_cases(tier))
    return [{'extra': True, 'cases': cases[i::32]} for i in range(32)]


def extra_run(task):
    res = Result()
    for case in task['cases']:
        status, viols, info = master.evaluate(case, [master.oracle_fixpoint], res)
        res.count('hybrid_histories')
        if status in ('refused', 'crash'):
            res.count('hybrid_refused')
            continue
        for v in viols:
            res.violation(v['clause'], v['cls'], v['msg'], case)
    return res


def check_extra(case):
    status, viols, info = master.evaluate(case, [master.oracle_fixpoint])
    return viols


def coverage_extra(tier, r):
    return {'hybrid_and_payload_histories': r.n.get('hybrid_histories', 0), 'refused': r.n.get('hybrid_refused', 0)}


B = _std.default_bounds()
B['quick'].append(('alpha', 'sigma11', [ops.mk(1), ops.mk(3, joliet=3, udf=True)], 4, 2))
B['thorough'].append(('alpha', 'sigma11', [ops.mk(1), ops.mk(3, joliet=3, rr='1.09'), ops.mk(3, joliet=3, udf=True)], 5, 2))
B['thorough'].append(('big', _std.BIG_GEN2))      # open . write of multi-gigabyte images on virtual devices

_std.install(globals(), 'C05', 'model_checking', [master.oracle_fixpoint], B,
             ['virtual clock advanced between generations; only the volume modification dates are masked',
              'alphabet sigma1 / sigma11 of mc/ops.py, the hybrid histories of mc/props/c12.py:history and the depth bounds listed in the evidence'],
             extra_tasks=extra_tasks, extra_run=extra_run,
             alphabets={'sigma11': lambda m: ops.sigma11(m, 'quick')})
