"""C05 - re-mastering is a fixpoint (DESIGN.md section 4): MASTER-ENUM histories + growth chains with the master.oracle_fixpoint oracle."""
from mc import master, ops, oracles
from mc.props import _std

_std.install(globals(), 'C05', 'model_checking', [master.oracle_fixpoint], _std.default_bounds(),
             ['virtual clock advanced between generations; only the volume modification dates are masked'] + ['alphabet sigma1 of mc/ops.py and the depth bounds listed in the evidence'])
