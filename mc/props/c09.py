"""C09 - Joliet fidelity (DESIGN.md section 4): MASTER-ENUM histories + growth chains with the oracles.oracle_joliet oracle."""
from mc import master, ops, oracles
from mc.props import _std

_std.install(globals(), 'C09', 'model_checking', [oracles.oracle_joliet], _std.default_bounds(),
             ['independent decoder r119 (UTF-16BE) is trusted base'] + ['alphabet sigma1 of mc/ops.py and the depth bounds listed in the evidence'])
