"""C09 - Joliet fidelity (DESIGN.md section 4): MASTER-ENUM histories with the Joliet oracle + a complete sweep of Unicode names."""
import itertools

from mc import explore, master, ops, oracles
from mc.framework import Result
from mc.props import _std

SIGMA_J = ['a', 'A', 'ä', 'é', '中', '�', '\U0001f600', ' ', '.', ';']


def names(tier):
    out = []
    for n in range(1, (4 if tier == 'thorough' else 3) + 1):
        for t in itertools.product(SIGMA_J, repeat=n):
            out.append(''.join(t))
    for ch in ('a', 'ä', '中', '\U0001f600', '.'):
        for n in (31, 32, 33, 62, 63, 64, 65, 66, 103, 110, 111):
            out.append(ch * n)
            out.append('x' + ch * (n - 1))
    return out


def extra_tasks(tier):
    ns = names(tier)
    out = []
    for jl in (1, 2, 3):
        cfg = ops.mk(3, joliet=jl)
        for i in range(6):
            out.append({'extra': True, 'cfg': cfg, 'names': ns[i::6]})
    cfg = ops.mk(1, joliet=3, rr='1.09')
    out.append({'extra': True, 'cfg': cfg, 'names': ns[::7]})
    return out


SWEEP_ORACLES = [oracles.oracle_joliet, master.oracle_roundtrip]


def steps_for(cfg, name, is_dir):
    rr = {'rr_name': 'n'} if cfg.get('rr') else {}
    if is_dir:
        return [[['add_directory', dict({'iso_path': '/N', 'joliet_path': '/' + name}, **rr)]],
                [['add_fp', dict({'content': 'c1', 'iso_path': '/N/F.;1', 'joliet_path': '/' + name + '/f'}, **({'rr_name': 'f'} if cfg.get('rr') else {}))]]]
    return [[['add_fp', dict({'content': 'c2049', 'iso_path': '/N.;1', 'joliet_path': '/' + name}, **rr)]],
            [['add_fp', {'content': 'c1', 'joliet_path': '/zz'}]]]


def extra_run(task):
    res = Result()
    cfg = task['cfg']
    for name in task['names']:
        if '/' in name or name in ('.', '..'):
            continue
        for is_dir in (False, True):
            case = {'extra': True, 'cfg': cfg, 'steps': steps_for(cfg, name, is_dir)}
            try:
                status, viols, info = master.evaluate(case, SWEEP_ORACLES, res)
            except Exception as e:
                # the reference model refuses the name (e.g. longer than 64 units): the implementation must refuse as well
                status, viols, info = 'model-refused', [], None
                impl, info2 = explore.run_history(cfg, case['steps'][:1])
                if impl is not None:
                    res.violation('names Joliet cannot hold are refused', 'accepted', 'Joliet name %r (%d units) accepted' % (name[:20], len(name.encode('utf-16_be')) // 2), case)
                elif not info2['refused']:
                    t, site = explore.exc_site(info2['exc'])
                    res.violation('names Joliet cannot hold are refused with the invalid-input error', '%s@%s' % (t, site), 'Joliet name %r: %s' % (name[:20], info2['exc']), case)
            res.count('name_sweep_cases')
            res.count('name_sweep_' + status.replace('-', '_'))
            if status == 'crash':
                t, site = explore.exc_site(info['exc'])
                res.violation('a name is accepted or refused with the invalid-input error', '%s@%s' % (t, site), 'Joliet name %r: %s' % (name[:20], info['exc']), case)
            for v in viols:
                res.violation(v['clause'], v['cls'], v['msg'], case)
    return res


def check_extra(case):
    try:
        status, viols, info = master.evaluate(case, SWEEP_ORACLES)
    except Exception:
        impl, info2 = explore.run_history(case['cfg'], case['steps'][:1])
        if impl is not None:
            return [{'clause': 'names Joliet cannot hold are refused', 'cls': 'accepted', 'msg': 'accepted'}]
        if not info2['refused']:
            t, site = explore.exc_site(info2['exc'])
            return [{'clause': 'names Joliet cannot hold are refused with the invalid-input error', 'cls': '%s@%s' % (t, site), 'msg': str(info2['exc'])}]
        return []
    if status == 'crash':
        t, site = explore.exc_site(info['exc'])
        return [{'clause': 'a name is accepted or refused with the invalid-input error', 'cls': '%s@%s' % (t, site), 'msg': str(info['exc'])}]
    return viols


def coverage_extra(tier, r):
    return dict((k, v) for k, v in r.n.items() if k.startswith('name_sweep'))


_std.install(globals(), 'C09', 'model_checking', [oracles.oracle_joliet], _std.default_bounds(),
             ['independent decoder r119 (UTF-16BE) is trusted base',
              'name sweep: every name of length 1..3 (4) over %d characters (BMP, non-BMP, space, dot, semicolon) and length families 31..111 units, as file and directory, Joliet levels 1-3' % len(SIGMA_J),
              'alphabet sigma1 of mc/ops.py and the depth bounds listed in the evidence'],
             extra_tasks=extra_tasks, extra_run=extra_run)
