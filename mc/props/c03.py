"""C03 - structurally valid ISO9660 for an independent reader (DESIGN.md section 4): MASTER-ENUM histories + growth chains with the oracles.oracle_ecma119 oracle."""
from mc import master, ops, oracles
from mc.props import _std

_std.install(globals(), 'C03', 'model_checking', [oracles.oracle_ecma119], _std.default_bounds(big=True),
             ['independent decoder mc/readers/r119.py is trusted base'] + ['alphabet sigma1 of mc/ops.py and the depth bounds listed in the evidence'])
