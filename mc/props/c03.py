"""C03 - structurally valid ISO9660 for an independent reader (DESIGN.md section 4): MASTER-ENUM histories + growth chains with the oracles.oracle_ecma119 oracle."""
from mc import master, ops, oracles
from mc.props import _std

# configurations with non-default volume descriptor parameters (volume set size / sequence number, identifiers, dates):
# fields that are recorded in both byte orders or as fixed-width strings but never vary in the other configurations
VDP = [dict(ops.mk(3, joliet=3), vdp={'set_size': 2, 'seqnum': 1, 'sys_ident': 'SYS', 'vol_ident': 'VOL', 'vol_set_ident': 'SET', 'pub_ident_str': 'pub',
                                      'preparer_ident_str': 'prep', 'app_ident_str': 'app', 'copyright_file': 'COPY', 'abstract_file': 'ABS', 'bibli_file': 'BIB',
                                      'vol_expire_date': 86400.0 * 400, 'app_use': 'use'}),
       dict(ops.mk(4, rr='1.09'), vdp={'set_size': 513, 'seqnum': 258})]
B = _std.default_bounds(big=True)
B['quick'].append(('dfs', 'quick', VDP, 1, 1))
B['thorough'].append(('dfs', 'quick', VDP, 2, 1))
B['thorough'].append(('big', _std.BIG_GEN2[:5]))      # second-generation images with multi-gigabyte files

_std.install(globals(), 'C03', 'model_checking', [oracles.oracle_ecma119], B,
             ['independent decoder mc/readers/r119.py is trusted base'] + ['alphabet sigma1 of mc/ops.py and the depth bounds listed in the evidence'])
