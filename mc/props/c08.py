"""C08 - Rock Ridge fidelity for an independent SUSP/RRIP reader (DESIGN.md section 4): MASTER-ENUM histories,
continuation-area allocator alphabet, and complete input sweeps over name lengths and symlink target shapes."""
import itertools

from mc import explore, master, ops, oracles
from mc.framework import Result
from mc.props import _std

CFGS = [ops.mk(1, rr='1.09'), ops.mk(2, rr='1.10', xa=True), ops.mk(4, rr='1.09'), ops.mk(3, rr='1.12'), ops.mk(3, rr='1.09', xa=True), ops.mk(1, rr='1.12', xa=True), ops.mk(3, rr='1.10'),
        ops.mk(4, rr='1.12', xa=True)]
# at level 4 the identifier itself can use up the directory record, so that not even the first NM byte fits
ISO_NAMES = {1: ['N.;1', 'ABCDEFGH.TXT;1'], 2: ['N.;1', 'ABCDEFGH.TXT;1', 'A' * 27 + '.TXT;1'], 3: ['N.;1', 'ABCDEFGH.TXT;1', 'A' * 27 + '.TXT;1'],
             4: ['A' * 190, 'N', 'A' * 150]}


def sweep_cases(tier):
    """(kind, payload) for every configuration"""
    nmax = 1100 if tier == 'thorough' else 300
    cases = []
    for n in range(1, nmax + 1):
        cases.append(('name', 'n' * n))
    for n in range(1, nmax + 1):
        cases.append(('target', 'a' * n))
        cases.append(('target', '/' + 'a' * n))
    for n in range(1, (400 if tier == 'thorough' else 260)):
        cases.append(('target', 'a' * n + '/bbbb/cc'))
        cases.append(('target', 'x/' + 'a' * n + '/..'))
    for k in range(1, (41 if tier == 'thorough' else 13)):
        for m in (1, 2, 125, 248, 249, 250, 251, 255, 256):
            cases.append(('target', '/'.join(['c' * m] * k)))
    if tier != 'thorough':
        # many short components (each costs 2 bytes of header): the quick tier needs them up to 40 as well
        for k in range(13, 41):
            for m in (1, 2):
                cases.append(('target', '/'.join(['c' * m] * k)))
    comps = ['', '.', '..', 'a', '.a', 'a.']
    for k in range(1, 5 if tier == 'thorough' else 4):
        for t in itertools.product(comps, repeat=k):
            tg = '/'.join(t)
            if tg:
                cases.append(('target', tg))
                cases.append(('target', '/' + tg))
    for n in (199, 200, 201, 250, 251):
        for m in (120, 250, 260):
            cases.append(('both', ('n' * n, 't' * m + '/u')))
    return cases


def build_steps(cfg, iso_name, kind, payload):
    if kind == 'name':
        return [[['add_fp', {'content': 'c1', 'iso_path': '/' + iso_name, 'rr_name': payload}]]]
    if kind == 'target':
        return [[['add_symlink', {'symlink_path': '/' + iso_name, 'rr_symlink_name': 's', 'rr_path': payload}]]]
    return [[['add_symlink', {'symlink_path': '/' + iso_name, 'rr_symlink_name': payload[0], 'rr_path': payload[1]}]]]


SWEEP_ORACLES = [oracles.oracle_rockridge, master.oracle_roundtrip]


def extra_tasks(tier):
    out = []
    cases = sweep_cases(tier)
    cfgs = CFGS if tier == 'thorough' else CFGS[:3]
    for cfg in cfgs:
        for iso_name in ISO_NAMES[cfg['level']][:(3 if tier == 'thorough' else 1)]:
            for i in range(8):
                out.append({'extra': True, 'cfg': cfg, 'iso_name': iso_name, 'cases': cases[i::8]})
    # level 4: every identifier length that leaves 0 .. 40 bytes of the directory record to the Rock Ridge entries
    for cfg in cfgs:
        if cfg['level'] == 4:
            small = [('name', 'r' * k) for k in (1, 5, 50, 150, 250)] + [('target', 't' * k) for k in (1, 60, 200)] + [('both', ('n' * 40, 'a' * 130 + '/bb'))]
            for L in range(150, 194):
                out.append({'extra': True, 'cfg': cfg, 'iso_name': 'A' * L, 'cases': small})
    # directory chains of depth 1..17 with a file and a symlink at each level, with and without set_relocated_name
    # ... and with directory names long enough that NM / CL / PL / RE entries move into the continuation area
    for cfg in cfgs:
        for reloc in (False, True):
            for namelen in ((0, 190) if tier == 'quick' else (0, 100, 150, 190, 250)):
                out.append({'extra': True, 'cfg': cfg, 'deep': True, 'reloc': reloc, 'namelen': namelen, 'maxdepth': 17 if tier == 'thorough' else 10})
    return out


def deep_steps(cfg, depth, reloc, namelen=0):
    steps = []
    if reloc:
        steps.append([['set_relocated_name', {'name': 'MOVED', 'rr_name': 'moved_here'}]])
    p = ''
    for i in range(1, depth + 1):
        p += '/Y%d' % i
        steps.append([['add_directory', {'iso_path': p, 'rr_name': ('y%d' % i) if not namelen else ('y%d_' % i).ljust(namelen, 'n')}]])
        steps.append([['add_fp', {'content': 'c1', 'iso_path': p + '/F.;1', 'rr_name': 'f'}]])
        steps.append([['add_symlink', {'symlink_path': p + '/S.;1', 'rr_symlink_name': 's', 'rr_path': '../f'}]])
    return steps


def extra_run(task):
    res = Result()
    cfg = task['cfg']
    if task.get('deep'):
        for depth in range(1, task['maxdepth'] + 1):
            case = {'extra': True, 'cfg': cfg, 'steps': deep_steps(cfg, depth, task['reloc'], task.get('namelen', 0))}
            status, viols, info = master.evaluate(case, SWEEP_ORACLES, res)
            res.count('sweep_cases')
            if status in ('refused', 'crash'):
                res.count('sweep_refused')
                res.note('sweep_refusals', 'depth %d: %s' % (depth, str(info['exc'])[:60]))
                break
            for v in viols:
                res.violation(v['clause'], v['cls'], v['msg'], case)
        # ... and taken down again from the bottom (relocated directories, their placeholders and continuation areas go)
        top = min(task['maxdepth'], 9)
        steps = deep_steps(cfg, top, task['reloc'], task.get('namelen', 0))
        p = ''.join('/Y%d' % i for i in range(1, top + 1))
        for depth in range(top, 0, -1):
            for op in (['rm_file', {'iso_path': p + '/S.;1'}], ['rm_file', {'iso_path': p + '/F.;1'}], ['rm_directory', {'iso_path': p}]):
                steps = steps + [[op]]
                if op[0] != 'rm_directory':
                    continue
                case = {'extra': True, 'cfg': cfg, 'steps': steps}
                status, viols, info = master.evaluate(case, SWEEP_ORACLES, res)
                res.count('sweep_cases')
                if status in ('refused', 'crash'):
                    t, site = explore.exc_site(info['exc'])
                    res.violation('a deep chain can be removed again', '%s@%s' % (t, site), 'removing depth %d: %s' % (depth, info['exc']), case)
                    return res
                for v in viols:
                    res.violation(v['clause'], v['cls'], v['msg'], case)
            p = p[:p.rindex('/')]
        return res
    from mc.model import ModelRefuse
    for kind, payload in task['cases']:
        case = {'extra': True, 'cfg': cfg, 'steps': build_steps(cfg, task['iso_name'], kind, payload)}
        try:
            status, viols, info = master.evaluate(case, SWEEP_ORACLES, res)
        except ModelRefuse:
            # the reference model refuses the input (identifier + Rock Ridge entries do not fit the record): whether the
            # implementation refuses it too is C13's subject
            res.count('sweep_model_refused')
            continue
        res.count('sweep_cases')
        if status == 'refused':
            res.count('sweep_refused')
            res.note('sweep_refusals', '%s len %d: %s' % (kind, len(payload) if isinstance(payload, str) else len(payload[0]), str(info['exc'])[:60]))
            continue
        if status == 'crash':
            t, site = explore.exc_site(info['exc'])
            res.violation('edit accepted or refused with the invalid-input error', '%s@%s' % (t, site), '%s %r: %s' % (kind, str(payload)[:60], info['exc']), case)
            continue
        for v in viols:
            res.violation(v['clause'], v['cls'], v['msg'], case)
    return res


def check_extra(case):
    status, viols, info = master.evaluate(case, SWEEP_ORACLES)
    if status == 'crash':
        t, site = explore.exc_site(info['exc'])
        return [{'clause': 'edit accepted or refused with the invalid-input error', 'cls': '%s@%s' % (t, site), 'msg': str(info['exc'])}]
    return viols


def coverage_extra(tier, r):
    return {'input_sweep_cases': r.n.get('sweep_cases', 0), 'input_sweep_refused': r.n.get('sweep_refused', 0),
            'input_sweep': 'every Rock Ridge name length 1..%d; symlink targets a*n, /a*n, a*n/bbbb/cc, k components of boundary lengths, every arrangement of special components; '
                           'directory chains of depth 1..%d with a file and a symlink per level, with/without set_relocated_name' % ((1100, 17) if tier == 'thorough' else (300, 10))}


_std.install(globals(), 'C08', 'model_checking', [oracles.oracle_rockridge], _std.default_bounds(ce=True),
             ['independent decoders r119 + rsusp are trusted base', 'link count rule: 2 + physical subdirectories (CL placeholders count where they sit), calibrated on the unchanged tree',
              'alphabet sigma1 / sigma_ce of mc/ops.py, the input sweeps of this module and the depth bounds listed in the evidence'],
             extra_tasks=extra_tasks, extra_run=extra_run)
