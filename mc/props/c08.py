"""C08 - Rock Ridge fidelity for an independent SUSP/RRIP reader (DESIGN.md section 4): MASTER-ENUM histories + growth chains with the oracles.oracle_rockridge oracle."""
from mc import master, ops, oracles
from mc.props import _std

_std.install(globals(), 'C08', 'model_checking', [oracles.oracle_rockridge], _std.default_bounds(ce=True),
             ['independent decoders r119 + rsusp are trusted base', 'link count rule: 2 + physical subdirectories (CL placeholders count where they sit)'] + ['alphabet sigma1 of mc/ops.py and the depth bounds listed in the evidence'])
