"""C17 - In-place modification touches only what it must and stays a valid image (DESIGN.md section 4, C17)."""
import io

from mc import env, explore, master, ops, oracles
from mc import decode as dec
from mc.driver import Impl, cfg_name
from mc.framework import Result, h8
from mc.model import content_bytes
from mc.readers import r167
from mc.vdev import RecFile

PROP = 'C17'
LEVEL = 'model_checking'
ASSUMPTIONS = [
    'base images: mc/ops.py:reopen_bases plus a multi-sector directory, per configuration',
    '"touched" is judged on changed bytes of the backing file (the library rewrites whole descriptor sectors with identical content)',
    'independent decoders locate the records / file entries on the image before the modification',
]
SECTOR = 2048
CFGS = [ops.mk(1), ops.mk(3, joliet=3), ops.mk(2, rr='1.10', xa=True), ops.mk(3, joliet=3, udf=True), ops.mk(3, joliet=3, rr='1.12', udf=True), ops.mk(4, joliet=2, rr='1.12', udf=True, xa=True)]


def _file_op(cfg, iso_name, rr_name, content):
    kw = {'content': content, 'iso_path': '/D1/' + iso_name}
    if cfg.get('rr'):
        kw['rr_name'] = rr_name
    if cfg.get('joliet'):
        kw['joliet_path'] = '/d1/' + rr_name
    if cfg.get('udf'):
        kw['udf_path'] = '/d1/' + rr_name
    return ['add_fp', kw]


_EXACT = {}


def exact_fit_base(cfg):
    """
    A directory /D1 whose records fill its first sector *exactly* (a record ends on byte 2048) and continue in a
    second sector: found by measuring record lengths on probe images with the independent decoder and solving
    dot + dotdot + n * len(standard record) + len(filler record) = 2048 over the filler's name lengths.
    Returns (steps, [target paths]) or None.
    """
    key = cfg_name(cfg)
    if key in _EXACT:
        return _EXACT[key]
    _EXACT[key] = None

    def dir_records(steps):
        impl, info = explore.run_history(cfg, steps)
        if impl is None:
            return None
        img = impl.write()
        # walk the first sector of /D1 by hand: record lengths in order
        d = dec.decode_iso(img)
        e = d.vol.trees['iso'].by_path.get('/D1')
        if e is None:
            return None
        off = e.extents[0][0] * SECTOR
        lens = []
        pos = off
        while pos < off + e.extents[0][1]:
            ln = img[pos]
            if ln == 0:
                pos = (pos // SECTOR + 1) * SECTOR
                continue
            lens.append((pos - off, ln))
            pos += ln
        return lens
    mk = [ops.add_dir(cfg, 'D1')]
    std = lambda i: _file_op(cfg, 'F%02d.;1' % i, 'f%02d' % i, 'c1s%d' % (i % 5))
    maxk = 8 if cfg.get('level', 1) == 1 else 24

    def filler(i, k, m):
        # distinct names of identical lengths that sort before F00
        return _file_op(cfg, ('%02d' % i) + 'A' * (k - 2) + '.;1', ('%02d' % i) + 'a' * (m - 2), 'c1')
    for k in range(2, maxk + 1):
        for m in ([k] if not cfg.get('rr') else range(2, 14)):
            lens = dir_records([mk, [std(0), filler(0, k, m)]])
            if lens is None or len(lens) != 4:
                continue
            dot, dotdot, lf, ls = lens[0][1], lens[1][1], lens[2][1], lens[3][1]     # the filler sorts before F00
            for j in range(1, 21):
                rest = SECTOR - dot - dotdot - j * lf
                if rest > 0 and rest % ls == 0:
                    n = rest // ls
                    steps = [mk, [filler(i, k, m) for i in range(j)] + [std(i) for i in range(n + 6)]]
                    lens2 = dir_records(steps)
                    if lens2 is None:
                        continue
                    ends = [o + l for o, l in lens2]
                    if SECTOR in ends and any(o >= SECTOR for o, l in lens2):
                        tg = ['/D1/F%02d.;1' % i for i in sorted(set([0, n - 2, n - 1, n, n + 5])) if i >= 0]
                        _EXACT[key] = (steps, tg)
                        return _EXACT[key]
    return None


def bases(cfg):
    out = list(ops.reopen_bases(cfg))
    g = ops.grow_dir_step(cfg, 'D1', prefix='H')
    out.append(('bigsub', [[ops.add_dir(cfg, 'D1')], g, [ops.add_fp(cfg, 'AB', 'D1', 'c2049')]]))
    ef = exact_fit_base(cfg)
    if ef is not None:
        out.append(('exactfit', ef[0]))
    return out


def new_lengths(old):
    return sorted(set(x for x in (0, 1, old - 1, old, old + 1, 2047, 2048, 2049, 4096) if x >= 0))


def targets(model, only=None):
    t = [p for p, n in sorted(model.iso.items()) if n['kind'] == 'file' and n.get('bid') not in (None, 'CAT') and (only is None or p in only)]
    d = [p for p, n in sorted(model.iso.items()) if n['kind'] == 'dir' and p != '/'][:1]
    return t, d + ['/NOPE.;1']


def allowed_ranges(img, model, bid, newlen):
    """Byte ranges a modification of blob `bid` may change, located by the independent decoders on `img`."""
    d = dec.decode_iso(img)
    u = r167.decode(img)
    rng = []
    old = len(content_bytes(model.blobs[bid]['content']))
    nsec = max((max(old, newlen) + SECTOR - 1) // SECTOR, 1)
    for ns, p in model.names_of(bid):
        if ns in ('iso', 'joliet'):
            t = d.vol.trees.get(ns)
            e = None
            if t is not None and p in t.by_path:
                e = t.by_path[p]
            elif ns == 'iso' and model.rr and d.rr is not None and d.rr.present:
                # physically relocated (Rock Ridge): locate through the logical tree
                n = d.rr.logical.get(model.rr_path_of(p))
                e = n.entry if n is not None else None
            if e is None:
                continue
            for off, ln in zip(e.rec_offsets, e.rec_lens):
                rng.append((off, off + ln))
            for ext, ln in e.extents:
                if ext:
                    rng.append((ext * SECTOR, (ext + nsec) * SECTOR))
        elif ns == 'udf' and u.present and p in u.tree:
            n = u.tree[p]
            rng.append((n.fe_sector * SECTOR, (n.fe_sector + 1) * SECTOR))
            for pos, ln in n.extents:
                rng.append(((u.part_start + pos) * SECTOR, (u.part_start + pos + nsec) * SECTOR))
    for vd in d.vol.vds:
        if vd['type'] in (1, 2):
            rng.append((vd['sector'] * SECTOR + 80, vd['sector'] * SECTOR + 88))
    return rng


def run_case(case, res=None):
    """case: cfg, steps (base), mods: [[iso_path, newkey], ...].  Returns violations."""
    cfg, steps = case['cfg'], case['steps']
    viols = []
    impl, info = explore.run_history(cfg, steps)
    if impl is None:
        return None
    model = explore.model_of(cfg, steps)
    img0 = impl.write()
    backing = RecFile(img0)
    backing.seek(0)
    iso = env.PyCdlib()
    iso.open_fp(backing)
    model.apply(['REOPEN', {}])
    cur = img0
    for mi, (path, newkey) in enumerate(case['mods']):
        newdata = content_bytes(newkey)
        node = model.iso.get(path)
        is_file = node is not None and node['kind'] == 'file' and node.get('bid') not in (None, 'CAT')
        old = len(content_bytes(model.blobs[node['bid']]['content'])) if is_file else None
        should = is_file and (old + SECTOR - 1) // SECTOR == (len(newdata) + SECTOR - 1) // SECTOR
        rng = allowed_ranges(cur, model, node['bid'], len(newdata)) if is_file else []
        nwrites = len(backing.writes)
        try:
            iso.modify_file_in_place(io.BytesIO(newdata), len(newdata), path)
            accepted, exc = True, None
        except Exception as e:
            accepted, exc = False, e
        after = backing.getvalue()
        if res is not None:
            res.count('modifications')
            res.count('accepted' if accepted else 'refused')
        tag = 'mod %d %s -> %s' % (mi, path, newkey)
        if not accepted:
            if not isinstance(exc, env.PyCdlibException):
                viols.append({'clause': 'refusal is a library exception', 'cls': '%s@%s' % explore.exc_site(exc), 'msg': '%s raised %s: %s' % (tag, type(exc).__name__, exc)})
            if after != cur or len(backing.writes) != nwrites:
                viols.append({'clause': 'a refused replacement leaves the image file byte-identical', 'cls': 'written after refusal (%s)' % ('file' if is_file else 'non-file'),
                              'msg': '%s refused (%s) but the backing file saw %d writes, %s' % (tag, exc, len(backing.writes) - nwrites, master.describe_diff(cur, after) if after != cur else 'same bytes')})
                return viols
            if should:
                viols.append({'clause': 'a replacement keeping the number of sectors is accepted', 'cls': 'refused', 'msg': '%s refused: %s' % (tag, exc)})
            continue
        if not should:
            viols.append({'clause': 'a replacement changing the number of sectors or targeting a non-file is refused', 'cls': 'accepted (%s)' % ('sector count' if is_file else 'non-file'),
                          'msg': '%s accepted (old length %s)' % (tag, old)})
            return viols
        # changed bytes inside the allowed ranges
        if len(after) != len(cur):
            viols.append({'clause': 'only the file, its records and the size fields are touched', 'cls': 'length', 'msg': '%s changed the image length' % tag})
            return viols
        bad = None
        for s in range(0, len(cur), SECTOR):
            if cur[s:s + SECTOR] != after[s:s + SECTOR]:
                for j in range(s, min(s + SECTOR, len(cur))):
                    if cur[j] != after[j] and not any(a <= j < b for a, b in rng):
                        bad = j
                        break
            if bad is not None:
                break
        if bad is not None:
            viols.append({'clause': 'only the file, its records and the size fields are touched', 'cls': master.region_name(cur, bad),
                          'msg': '%s changed byte %d (sector %d offset %d) outside the file, its records and the size fields' % (tag, bad, bad // SECTOR, bad % SECTOR)})
        model.blobs[node['bid']]['content'] = newkey
        cur = after
        # the modified image file is itself a valid image with the new content everywhere
        ctx = master.Ctx(cfg, steps, model, None)
        ctx.image = after
        for orc in (oracles.oracle_ecma119, oracles.oracle_joliet, oracles.oracle_rockridge, oracles.oracle_udf, master.oracle_roundtrip):
            try:
                vs = orc(ctx, None)
            except Exception as e:
                vs = [{'clause': orc.__name__ + ' runs', 'cls': '%s@%s' % explore.exc_site(e), 'msg': str(e)[:200]}]
            for v in vs:
                viols.append({'clause': 'modified image: ' + v['clause'], 'cls': v['cls'], 'msg': tag + ': ' + v['msg']})
        if viols:
            return viols
    return viols


def tasks(tier):
    out = []
    cfgs = CFGS if tier == 'thorough' else CFGS[:5]
    for cfg in cfgs:
        for name, steps in bases(cfg):
            out.append({'cfg': cfg, 'base': name, 'steps': steps, 'depth': 2 if tier == 'thorough' else 1})
    return out


def run_task(task):
    res = Result()
    cfg, steps = task['cfg'], task['steps']
    model = explore.model_of(cfg, steps)
    only = None
    if task['base'] == 'exactfit':
        only = exact_fit_base(cfg)[1]      # the records before, on and after the sector boundary
    files, others = targets(model, only)
    res.add('bases', '%s/%s' % (cfg_name(cfg), task['base']))
    firsts = []
    for p in files:
        old = len(content_bytes(model.blobs[model.iso[p]['bid']]['content']))
        for n in new_lengths(old):
            for key in ('z%d' % n, 'c%ds7' % n):
                firsts.append([p, key])
    for p in others:
        firsts.append([p, 'c1s7'])
    for m1 in firsts:
        seqs = [[m1]]
        if task['depth'] >= 2:
            # second modification: same file again and one other file, sizes around the first's new size
            n1 = len(content_bytes(m1[1]))
            for p in files[:2] + [m1[0]]:
                for n in sorted(set([0, n1, n1 + 1, 2048, 2049])):
                    seqs.append([m1, [p, 'c%ds3' % n]])
        for mods in seqs:
            case = {'cfg': cfg, 'steps': steps, 'mods': mods, 'size': len(mods) + len(explore.flat(steps))}
            vs = run_case(case, res)
            if vs is None:
                res.count('base_not_accepted')
                break
            res.count('executions')
            res.count('transitions', len(mods))
            res.add('states', h8(repr(mods), cfg_name(cfg), task['base']))
            for v in vs:
                res.violation(v['clause'], v['cls'], v['msg'], case)
            if not vs:
                res.sample({'cfg': cfg, 'base': task['base'], 'mods': mods})
    return res


def check_case(case):
    return run_case(case) or []


def shrink(case):
    if len(case['mods']) > 1:
        for i in range(len(case['mods'])):
            c = dict(case)
            c['mods'] = case['mods'][:i] + case['mods'][i + 1:]
            yield c
    from mc.framework import default_shrink
    for c in default_shrink(case):
        yield c


def coverage(tier, r):
    return {
        'states': len(r.sets.get('states', ())) or 1,
        'transitions': r.n.get('modifications', 0),
        'traces_validated_against_impl': r.n.get('executions', 0),
        'accepted': r.n.get('accepted', 0), 'refused': r.n.get('refused', 0),
        'bound': {'base_images': len(r.sets.get('bases', ())), 'new_lengths': 'around 0, old, sector boundaries', 'contents': 2, 'modifications_per_history': 2 if tier == 'thorough' else 1},
        'exhaustive': True,
        'explanation': 'every file of every base image x every new length x 2 contents (x a second modification in the thorough tier) and directory/missing targets; '
                       'byte differential of the backing file against ranges located by the independent decoders, and full decode of the modified image',
    }
