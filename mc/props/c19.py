"""C19 - Recorded timestamps denote the instant they were made from (DESIGN.md section 4, C19)."""
import calendar
import os
import struct
import time

from mc import env
from mc.framework import Result

PROP = 'C19'
LEVEL = 'exploration'
ASSUMPTIONS = [
    'time zones are set in-process with TZ + time.tzset(); the true offset of an instant is calendar.timegm(time.localtime(t)) - t',
    'instants at which the zone offset is not a multiple of 15 minutes are outside the property and skipped (counted)',
    'the grid of instants is complete for what it lists (see rule); it is not "every instant"',
]

FIXED = []
for q in range(-48, 57):           # -12:00 .. +14:00 in 15-minute steps
    sign = '-' if q >= 0 else '+'  # POSIX: the sign is inverted
    a = abs(q)
    FIXED.append('X%s%d:%02d' % (sign, a // 4, (a % 4) * 15))
NAMED = ['America/New_York', 'America/St_Johns', 'Europe/London', 'Europe/Moscow', 'Asia/Kolkata', 'Asia/Kathmandu',
         'Australia/Lord_Howe', 'Australia/Sydney', 'Pacific/Chatham', 'Pacific/Kiritimati', 'Pacific/Apia',
         'Pacific/Auckland', 'Africa/Casablanca', 'Etc/GMT+12']


def zones(tier):
    named = [z for z in NAMED if os.path.exists('/usr/share/zoneinfo/' + z)]
    if tier == 'quick':
        return FIXED[::4] + [FIXED[-1], FIXED[-2]] + named
    return FIXED + named


def instants(tier):
    out = set()
    years = range(1970, 2100) if tier == 'thorough' else list(range(1970, 2100, 7)) + [1972, 1999, 2000, 2024, 2025, 2028, 2029, 2037, 2038, 2096, 2097, 2099]
    step = 900 if tier == 'thorough' else 3600
    for y in years:
        t0 = calendar.timegm((y, 1, 1, 0, 0, 0))
        for d in range(-14 * 3600, 14 * 3600 + 1, step):
            out.add(t0 + d)
        out.update((t0 - 1, t0 + 1))
        for (mo, da) in ((2, 28), (3, 1)):
            for hh in (0, 12):
                t = calendar.timegm((y, mo, da, hh, 0, 0))
                out.update((t - 1, t, t + 1))
        if calendar.isleap(y):
            t = calendar.timegm((y, 2, 29, 12, 0, 0))
            out.update((t - 1, t, t + 1, t - 12 * 3600, t + 12 * 3600))
    for y in ((1970, 1999, 2000, 2037, 2038, 2099) if tier == 'thorough' else (2000, 2038)):
        t0 = calendar.timegm((y, 1, 1, 0, 0, 0))
        for h in range(0, 366 * 24, 1 if tier == 'thorough' else 6):
            out.add(t0 + h * 3600)
    # t = 0 is pycdlib's documented sentinel for 'date not specified' (all-zero volume descriptor date)
    return sorted(t for t in out if t > 0)


def transitions(zone, lo=0, hi=4102444800):
    """DST transition instants of the current TZ found by scanning time.localtime (day grid + bisection)."""
    out = []
    def off(t):
        return calendar.timegm(time.localtime(t)) - t
    t = lo
    prev = off(t)
    while t < hi:
        n = t + 86400 * 7
        o = off(n)
        if o != prev:
            a, b = t, n
            while b - a > 1:
                m = (a + b) // 2
                if off(m) == prev:
                    a = m
                else:
                    b = m
            out.append(b)
            prev = o
        t = n
    return out


def decode7(b):
    y, mo, d, h, mi, s, off = struct.unpack('=BBBBBBb', b)
    return calendar.timegm((1900 + y, mo, d, h, mi, s)) - off * 900


def decode17(b):
    txt = b[:16].decode('ascii')
    off = struct.unpack('=b', b[16:17])[0]
    y, mo, d, h, mi, s = int(txt[0:4]), int(txt[4:6]), int(txt[6:8]), int(txt[8:10]), int(txt[10:12]), int(txt[12:14])
    if y == 0:
        return None
    return calendar.timegm((y, mo, d, h, mi, s)) - off * 900


def decode_udf(b):
    tt, y, mo, d, h, mi, s, cs, hm, us = struct.unpack('<HhBBBBBBBB', b)
    typ = tt >> 12
    off = tt & 0xfff
    if off & 0x800:
        off -= 0x1000
    if typ != 1:
        return ('type', typ)
    return calendar.timegm((y, mo, d, h, mi, s)) - off * 60


def check_instant(t, res, zone):
    from pycdlib import dates, rockridge, udf
    out = []
    true_off = calendar.timegm(time.localtime(t)) - t
    if true_off % 900:
        res.count('skipped_offset_not_multiple_of_15min')
        return out
    res.add('offsets', true_off)

    def bad(kind, clause, msg):
        out.append({'clause': clause, 'cls': kind, 'msg': '%s zone %s t=%d (%s UTC, offset %+d s): %s' % (kind, zone, t, time.strftime('%Y-%m-%d %H:%M:%S', time.gmtime(t)), true_off, msg)})
    # 7-byte directory record date
    d = dates.DirectoryRecordDate()
    d.new(float(t))
    r = d.record()
    res.count('evaluations')
    if decode7(r) != t:
        bad('DirectoryRecordDate', 'recorded timestamp denotes its instant', 'decodes to %d (off by %d s)' % (decode7(r), decode7(r) - t))
    d2 = dates.DirectoryRecordDate()
    try:
        d2.parse(r)
        if d2.record() != r:
            bad('DirectoryRecordDate', 'parse then record is the identity', '%r -> %r' % (r, d2.record()))
    except Exception as e:
        bad('DirectoryRecordDate', 'parse then record is the identity', 'the library cannot parse what it recorded: %s: %s' % (type(e).__name__, e))
    # 17-byte volume descriptor date
    v = dates.VolumeDescriptorDate()
    v.new(float(t))
    r = v.record()
    res.count('evaluations')
    if decode17(r) != t:
        bad('VolumeDescriptorDate', 'recorded timestamp denotes its instant', 'decodes to %d (off by %d s)' % (decode17(r), decode17(r) - t))
    v2 = dates.VolumeDescriptorDate()
    try:
        v2.parse(r)
        if v2.record() != r:
            bad('VolumeDescriptorDate', 'parse then record is the identity', '%r -> %r' % (r, v2.record()))
    except Exception as e:
        bad('VolumeDescriptorDate', 'parse then record is the identity', 'the library cannot parse what it recorded: %s: %s' % (type(e).__name__, e))
    # Rock Ridge TF: both forms
    for flags, width, dec in ((0x0e, 7, decode7), (0x8e, 17, decode17)):
        tf = rockridge.RRTFRecord()
        tf.new(flags, float(t))
        r = tf.record()
        res.count('evaluations')
        body = r[5:]
        stamps = [body[i:i + width] for i in range(0, len(body), width)]
        if not stamps or any(len(x) != width for x in stamps):
            bad('RRTFRecord/%d' % width, 'recorded timestamp denotes its instant', 'unexpected TF layout %r' % r)
        else:
            for x in stamps:
                if dec(x) != t:
                    bad('RRTFRecord/%d' % width, 'recorded timestamp denotes its instant', 'decodes to %d (off by %d s)' % (dec(x), dec(x) - t))
                    break
        tf2 = rockridge.RRTFRecord()
        try:
            tf2.parse(r)
            if tf2.record() != r:
                bad('RRTFRecord/%d' % width, 'parse then record is the identity', 'differs')
        except Exception as e:
            bad('RRTFRecord/%d' % width, 'parse then record is the identity', 'the library cannot parse what it recorded: %s: %s' % (type(e).__name__, e))
    # UDF timestamp
    u = udf.UDFTimestamp()
    u.new(float(t))
    r = u.record()
    res.count('evaluations')
    got = decode_udf(r)
    if got != t:
        bad('UDFTimestamp', 'recorded timestamp denotes its instant', 'decodes to %s (off by %s s)' % (got, got - t if isinstance(got, int) else '?'))
    u2 = udf.UDFTimestamp()
    try:
        u2.parse(r)
        if u2.record() != r:
            bad('UDFTimestamp', 'parse then record is the identity', '%r -> %r' % (r, u2.record()))
    except Exception as e:
        bad('UDFTimestamp', 'parse then record is the identity', 'the library cannot parse what it recorded: %s: %s' % (type(e).__name__, e))
    return out


def tasks(tier):
    return [{'zone': z, 'tier': tier} for z in zones(tier)]


def run_task(task):
    res = Result()
    zone, tier = task['zone'], task['tier']
    os.environ['TZ'] = zone
    time.tzset()
    try:
        ts = instants(tier)
        if '/' in zone:
            for tr in transitions(zone):
                for d in (-7200, -3600, -1, 0, 1, 3600, 7200):
                    ts.append(tr + d)
            res.count('dst_transitions_found', len(ts))
        res.add('zones', zone)
        for t in ts:
            for v in check_instant(t, res, zone):
                res.violation(v['clause'], v['cls'], v['msg'], {'zone': zone, 't': t, 'size': 1, 'shape': v['cls']})
        res.sample({'zone': zone, 'instants': len(ts), 'first': ts[0], 'last': ts[-1]})
    finally:
        os.environ['TZ'] = 'UTC'
        time.tzset()
    return res


def check_case(case):
    os.environ['TZ'] = case['zone']
    time.tzset()
    try:
        return check_instant(case['t'], Result(), case['zone'])
    finally:
        os.environ['TZ'] = 'UTC'
        time.tzset()


MINIMISE = False


def coverage(tier, r):
    return {
        'evaluations': r.n.get('evaluations', 0),
        'distinct_nontrivial': len(r.sets.get('zones', ())) * max(len(r.sets.get('offsets', ())), 1),
        'rule': 'zones: fixed POSIX offsets -12:00..+14:00 in 15-minute steps (every 4th in the quick tier) + tzdata zones with DST/unusual offsets; '
                'instants: year boundaries +-14 h, leap days, every DST transition found by scanning localtime (+-1 s, 1 h, 2 h), hourly grids over selected years; '
                'x 4 timestamp classes (7-byte, 17-byte, Rock Ridge TF in both forms, UDF).  distinct = zones x distinct true offsets seen',
        'zones': len(r.sets.get('zones', ())),
        'distinct_offsets': len(r.sets.get('offsets', ())),
        'skipped': r.n.get('skipped_offset_not_multiple_of_15min', 0),
        'exhaustive': True,
    }
