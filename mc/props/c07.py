"""C07 - Hard-link semantics (DESIGN.md section 4, C07)."""
import struct

from mc import explore, master, ops, oracles
from mc.model import content_bytes
from mc.props import _std

BIG = 10   # sectors of the large content c20480


def _space(img):
    return struct.unpack_from('<L', img, 16 * 2048 + 80)[0]


def oracle_release(ctx, res):
    """(d) the space of a content is released exactly when its last reference goes away."""
    steps = ctx.steps
    if not steps:
        return []
    last = steps[-1][0]
    if last[0] not in ('rm_file', 'rm_hard_link', 'rm_eltorito'):
        return []
    before = explore.model_of(ctx.cfg, steps[:-1])
    impl, info = explore.run_history(ctx.cfg, steps[:-1])
    if impl is None:
        return []
    try:
        prev = impl.write()
    except Exception:
        return []
    dead = [b for b in before.blobs if b not in ctx.model.blobs and b != 'CAT']
    dsec = sum((len(content_bytes(before.blobs[b]['content'])) + 2047) // 2048 for b in dead)
    drop = _space(prev) - _space(ctx.image)
    if res is not None:
        res.count('release_checks')
        if dead:
            res.count('release_checks_last_reference')
    if drop < dsec:
        return [{'clause': 'space is released when the last reference goes away', 'cls': last[0] + ' keeps space',
                 'msg': '%s removed the last reference of %d sectors of content but the volume size dropped by %d' % (last, dsec, drop)}]
    if not dead and drop >= BIG:
        return [{'clause': 'space is kept while a reference remains', 'cls': last[0] + ' releases space',
                 'msg': '%s removed a non-last reference but the volume size dropped by %d sectors' % (last, drop)}]
    return []


CFGS = [ops.mk(3, joliet=3), ops.mk(3, joliet=3, udf=True), ops.mk(3, joliet=3, rr='1.09', udf=True)]
BOUNDS = {
    'quick': [('alpha', 'sigma7', CFGS, 3, 2), ('alpha', 'sigma7', CFGS[1:2], 4, 2),
              ('alpha', 'sigma_readd_q', [CFGS[2], ops.mk(3, joliet=3, rr='1.12')], 4, 2)],
    'thorough': [('alpha', 'sigma7', CFGS, 4, 2), ('alpha', 'sigma7_big', CFGS[2:], 5, 2),
                 ('alpha', 'sigma_readd_q', CFGS + [ops.mk(3, joliet=3, rr='1.12'), ops.mk(1, rr='1.09')], 4, 2),
                 ('alpha', 'sigma_readd_q', [ops.mk(3, joliet=3, rr='1.12')], 5, 2)],
}

_std.install(globals(), 'C07', 'model_checking', [master.oracle_roundtrip, master.oracle_live, oracles.oracle_alloc, oracle_release], BOUNDS,
             ['reference model: names carrying the same blob id are links; a blob dies when no tree entry and no boot entry refers to it',
              'space clause uses a 10-sector content so that directory/path-table shrinkage cannot be mistaken for the release of the content'],
             alphabets={'sigma7': lambda m: ops.sigma7(m, 'quick'), 'sigma7_big': lambda m: ops.sigma7(m, 'thorough')})
