"""C10 - UDF bridge fidelity (DESIGN.md section 4): MASTER-ENUM histories + growth chains with the oracles.oracle_udf oracle."""
from mc import master, ops, oracles
from mc.props import _std

_std.install(globals(), 'C10', 'model_checking', [oracles.oracle_udf], _std.default_bounds(),
             ['independent decoder r167 is trusted base'] + ['alphabet sigma1 of mc/ops.py and the depth bounds listed in the evidence'])
