"""C10 - UDF bridge fidelity (DESIGN.md section 4): MASTER-ENUM histories with the ECMA-167 oracle + a sweep of UDF names."""
import itertools

from mc import explore, master, ops, oracles
from mc.framework import Result
from mc.props import _std

SIGMA_U = ['a', 'A', 'ä', 'ÿ', '中', '\U0001f600', ' ', '.', ';', '\x01']


def names(tier):
    out = []
    for n in range(1, (4 if tier == 'thorough' else 3) + 1):
        for t in itertools.product(SIGMA_U, repeat=n):
            out.append(''.join(t))
    for ch in ('a', 'ÿ', '中'):
        for n in (126, 127, 128, 253, 254, 255):
            out.append(ch * n)
    return out


def steps_for(cfg, name, kind):
    if kind == 'dir':
        return [[['add_directory', {'udf_path': '/' + name}]], [['add_fp', {'content': 'c1', 'udf_path': '/' + name + '/f'}]]]
    if kind == 'symlink-name':
        return [[['add_symlink', {'udf_symlink_path': '/' + name, 'udf_target': 'target'}]]]
    if kind == 'symlink-target':
        return [[['add_symlink', {'udf_symlink_path': '/s', 'udf_target': name}]]]
    return [[['add_fp', {'content': 'c2049', 'udf_path': '/' + name}]], [['add_fp', {'content': 'c1', 'udf_path': '/zz'}]]]


SWEEP_ORACLES = [oracles.oracle_udf, master.oracle_roundtrip]


def extra_tasks(tier):
    ns = names(tier)
    cfg = ops.mk(3, udf=True)
    return [{'extra': True, 'cfg': cfg, 'names': ns[i::12]} for i in range(12)]


def run_one(cfg, name, kind, res=None):
    case = {'extra': True, 'cfg': cfg, 'steps': steps_for(cfg, name, kind)}
    try:
        status, viols, info = master.evaluate(case, SWEEP_ORACLES, res)
    except Exception:
        # the reference model refuses (e.g. identifier longer than 254 bytes): the implementation must refuse as well
        impl, info2 = explore.run_history(cfg, case['steps'][:1])
        if impl is not None:
            return case, 'model-refused', [{'clause': 'names UDF cannot hold are refused', 'cls': 'accepted', 'msg': 'UDF name of %d characters accepted' % len(name)}]
        if not info2['refused']:
            t, site = explore.exc_site(info2['exc'])
            return case, 'model-refused', [{'clause': 'a name is accepted or refused with the invalid-input error', 'cls': '%s@%s' % (t, site), 'msg': str(info2['exc'])[:100]}]
        return case, 'model-refused', []
    if status == 'crash':
        t, site = explore.exc_site(info['exc'])
        viols = [{'clause': 'a name is accepted or refused with the invalid-input error', 'cls': '%s@%s' % (t, site), 'msg': '%s %r: %s' % (kind, name[:20], info['exc'])}]
    return case, status, viols


def extra_run(task):
    res = Result()
    for name in task['names']:
        kinds = ['file', 'dir', 'symlink-name'] if '/' not in name and name not in ('.', '..') else []
        kinds.append('symlink-target')
        for kind in kinds:
            case, status, viols = run_one(task['cfg'], name, kind, res)
            res.count('name_sweep_cases')
            res.count('name_sweep_' + status.replace('-', '_'))
            for v in viols:
                res.violation(v['clause'], v['cls'], v['msg'], case)
    return res


def check_extra(case):
    st = case['steps'][0][0]
    kw = st[1]
    if st[0] == 'add_directory':
        name, kind = kw['udf_path'][1:], 'dir'
    elif st[0] == 'add_symlink':
        if kw['udf_symlink_path'] == '/s' and kw['udf_target'] != 'target':
            name, kind = kw['udf_target'], 'symlink-target'
        else:
            name, kind = kw['udf_symlink_path'][1:], 'symlink-name'
    else:
        name, kind = kw['udf_path'][1:], 'file'
    return run_one(case['cfg'], name, kind)[2]


def coverage_extra(tier, r):
    return dict((k, v) for k, v in r.n.items() if k.startswith('name_sweep'))


_std.install(globals(), 'C10', 'model_checking', [oracles.oracle_udf], _std.default_bounds(big_udf=True),
             ['independent decoder r167 is trusted base',
              'name sweep: every name of length 1..3 (4) over %d characters (Latin-1, UCS-2, non-BMP, control) and identifier lengths 126..255, as file, directory, symlink name and symlink target' % len(SIGMA_U),
              'alphabet sigma1 of mc/ops.py and the depth bounds listed in the evidence; no multi-gigabyte file is mastered (see DESIGN section 8)'],
             extra_tasks=extra_tasks, extra_run=extra_run)
