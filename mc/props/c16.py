"""C16 - Reading files: exact bytes, stream semantics, no interference (DESIGN.md section 4, C16)."""
import io
import itertools

from mc import env
from mc.framework import Result
from mc.model import content_bytes

def _stable(t):
    """A digest that does not depend on the per-process hash seed (evidence counts must be reproducible)."""
    import zlib
    return zlib.crc32(repr(t).encode('utf-8', 'surrogatepass'))


PROP = 'C16'
LEVEL = 'model_checking'
ASSUMPTIONS = [
    'reference model: io.BytesIO over the file content, driven in lock step',
    'where BytesIO clamps a negative seek result to 0 the stream may instead raise and keep its position (both are stream behaviours); where BytesIO raises, the stream must raise',
    'files carrying a boot info table are not in this alphabet (C11)',
]

LENGTHS = (0, 1, 5, 2048, 2049, 4097)
OTHER = 'c5s9'


def fname(n):
    return '/F%d.;1' % n


_IMAGES = {}


def build(variant):
    """One image with a file of every length plus an 'other' file; 'opened' = written and reopened."""
    if variant in _IMAGES:
        return _IMAGES[variant]
    env.reset()
    iso = env.PyCdlib()
    iso.new(interchange_level=3, joliet=3, udf='2.60')
    keep = []
    for n in LENGTHS:
        # 'readded': the first generation of every file has other bytes of the same length
        data = content_bytes(('c%ds5' if variant == 'readded' else 'c%d') % n)
        fp = io.BytesIO(data)
        keep.append(fp)
        iso.add_fp(fp, len(data), fname(n), joliet_path='/f%d' % n, udf_path='/f%d' % n)
    data = content_bytes(OTHER)
    fp = io.BytesIO(data)
    keep.append(fp)
    iso.add_fp(fp, len(data), '/G.;1', joliet_path='/g', udf_path='/g')
    if variant in ('opened', 'edited', 'readded'):
        img = env.write_image(iso)
        iso2 = env.PyCdlib()
        backing = io.BytesIO(img)
        iso2.open_fp(backing)
        keep.append(iso)
        iso = iso2
        keep.append(backing)
    if variant == 'edited':
        # an opened image that was edited afterwards so that every file's *planned* location moved, and whose
        # extents were then re-assigned (the data still lives at the original location)
        iso.add_directory('/AAADIR', joliet_path='/aaadir', udf_path='/aaadir')
        fp = io.BytesIO(b'early' * 1000)
        keep.append(fp)
        iso.add_fp(fp, 5000, '/AAA.;1', joliet_path='/aaa', udf_path='/aaa')
        iso.rm_file('/G.;1')
        fp = io.BytesIO(content_bytes(OTHER))
        keep.append(fp)
        iso.add_fp(fp, len(content_bytes(OTHER)), '/G.;1', joliet_path='/g', udf_path='/g')
        iso.force_consistency()
    if variant == 'readded':
        # every name is looked up and read through every namespace (lookup caches), removed, and added again with the
        # contents the scripts expect; streams and extractions must show the second generation
        for n in LENGTHS:
            for kw in ({'iso_path': fname(n)}, {'joliet_path': '/f%d' % n}, {'udf_path': '/f%d' % n}):
                iso.get_record(**kw)
                iso.get_file_from_iso_fp(io.BytesIO(), **kw)
        for n in LENGTHS:
            # rm_file by one name (alternating the namespace used), then whatever name is still there
            if n % 2:
                iso.rm_file(joliet_path='/f%d' % n)
            else:
                iso.rm_file(fname(n))
            for kw in ({'iso_path': fname(n)}, {'joliet_path': '/f%d' % n}, {'udf_path': '/f%d' % n}):
                try:
                    iso.rm_hard_link(**kw)
                except env.PyCdlibException:
                    pass
            data = content_bytes('c%d' % n)
            fp = io.BytesIO(data)
            keep.append(fp)
            iso.add_fp(fp, len(data), fname(n), joliet_path='/f%d' % n, udf_path='/f%d' % n)
    _IMAGES[variant] = (iso, keep)
    return _IMAGES[variant]


def stream_ops(n):
    ops = [('read', 0), ('read', 1), ('read', 3), ('read', None), ('read', -1), ('read', n + 7), ('readall',),
           ('readinto', 0), ('readinto', 2), ('readinto', n + 3), ('tell',)]
    offs = sorted(set([-1, 0, 1, n - 1, n, n + 2]))
    for w in (0, 1, 2, 3):
        for o in offs:
            ops.append(('seek', o, w))
    return ops


DEVS = ('second_stream_other', 'second_stream_same', 'extract_other_bs7', 'extract_same_bs1', 'extract_same_udf', 'list', 'get_record', 'write')


def do_dev(iso, n, dev):
    if dev == 'second_stream_other':
        with iso.open_file_from_iso(iso_path='/G.;1') as g:
            g.seek(1)
            g.read(2)
    elif dev == 'second_stream_same':
        with iso.open_file_from_iso(joliet_path='/f%d' % n) as g:
            g.read(1)
            g.seek(0, 2)
    elif dev == 'extract_other_bs7':
        iso.get_file_from_iso_fp(io.BytesIO(), iso_path='/G.;1', blocksize=7)
    elif dev == 'extract_same_bs1':
        iso.get_file_from_iso_fp(io.BytesIO(), iso_path=fname(n), blocksize=1)
    elif dev == 'extract_same_udf':
        iso.get_file_from_iso_fp(io.BytesIO(), udf_path='/f%d' % n, blocksize=8192)
    elif dev == 'list':
        list(iso.list_children(iso_path='/'))
    elif dev == 'get_record':
        iso.get_record(iso_path='/G.;1').extent_location()
    elif dev == 'write':
        iso.write_fp(io.BytesIO())


def run_script(variant, n, script, devs, path_kw=None):
    """Returns None or (index, message)."""
    iso, keep = build(variant)
    data = content_bytes('c%d' % n)
    ref = io.BytesIO(data)
    bygap = {}
    for g, d in devs:
        bygap.setdefault(g, []).append(d)
    kw = path_kw or {'iso_path': fname(n)}
    try:
        cm = iso.open_file_from_iso(**kw)
    except env.PyCdlibException as e:
        if n == 0:
            return None   # an empty file may have no stream; extraction is checked separately
        return (-1, 'open_file_from_iso raised %s' % e)
    with cm as f:
        for d in bygap.get(0, ()):
            try:
                do_dev(iso, n, d)
            except Exception as e:
                return (0, 'interfering operation %s raised %s: %s' % (d, type(e).__name__, e))
        for i, op in enumerate(script):
            pos = ref.tell()
            if op[0] == 'read' or op[0] == 'readall':
                want = ref.read() if op[0] == 'readall' else ref.read(op[1])
                try:
                    got = f.readall() if op[0] == 'readall' else f.read(op[1])
                except Exception as e:
                    return (i, '%s raised %s: %s' % (op, type(e).__name__, e))
                if got != want:
                    return (i, '%s at position %d returned %d bytes %r..., expected %d bytes %r...' % (op, pos, len(got), bytes(got[:6]), len(want), want[:6]))
            elif op[0] == 'readinto':
                a, b = bytearray(op[1]), bytearray(op[1])
                want = ref.readinto(a)
                try:
                    got = f.readinto(b)
                except Exception as e:
                    return (i, '%s raised %s: %s' % (op, type(e).__name__, e))
                if got != want or a != b:
                    return (i, '%s at position %d returned %s / %r..., expected %s / %r...' % (op, pos, got, bytes(b[:6]), want, bytes(a[:6])))
            elif op[0] == 'tell':
                try:
                    got = f.tell()
                except Exception as e:
                    return (i, 'tell raised %s' % e)
                if got != ref.tell():
                    return (i, 'tell() = %s, expected %s' % (got, ref.tell()))
            elif op[0] == 'seek':
                refexc = None
                try:
                    want = ref.seek(op[1], op[2])
                except (ValueError, OSError) as e:
                    refexc = e
                try:
                    got = f.seek(op[1], op[2])
                    gotexc = None
                except (env.PyCdlibException, ValueError, OSError) as e:
                    gotexc = e
                except Exception as e:
                    return (i, '%s raised %s: %s' % (op, type(e).__name__, e))
                if refexc is not None:
                    if gotexc is None:
                        return (i, '%s accepted (returned %s) where an in-memory stream raises %s' % (op, got, refexc))
                elif gotexc is not None:
                    # acceptable only where BytesIO clamped a negative target to 0; position must be unchanged
                    target = {0: op[1], 1: pos + op[1], 2: len(data) + op[1]}[op[2]]
                    if target >= 0:
                        return (i, '%s raised %s where an in-memory stream moves to %d' % (op, gotexc, want))
                    ref.seek(pos)
                elif got != want:
                    return (i, '%s returned %s, expected %s' % (op, got, want))
            try:
                if f.tell() != ref.tell():
                    return (i, 'after %s tell() = %s, expected %s' % (op, f.tell(), ref.tell()))
            except Exception as e:
                return (i, 'tell raised %s' % e)
            for d in bygap.get(i + 1, ()):
                try:
                    do_dev(iso, n, d)
                except Exception as e:
                    return (i, 'interfering operation %s raised %s: %s' % (d, type(e).__name__, e))
    return None


def cls_of(op, msg):
    m = msg
    import re
    m = re.sub(r'\d+', '#', m)
    m = re.sub(r"b'[^']*'", '*', m)
    return m[:90]


BOUNDS = {
    # (script length L, deviations k)
    'quick': [(3, 0), (2, 1)],
    'thorough': [(4, 0), (3, 1), (2, 2)],
}


def tasks(tier):
    out = []
    for L, k in BOUNDS[tier]:
        for variant in ('opened', 'new', 'edited', 'readded'):
            for n in LENGTHS:
                if variant in ('edited', 'readded') and (L > 2 or k > 1):
                    continue
                nops = len(stream_ops(n))
                for first in range(nops):
                    out.append({'variant': variant, 'n': n, 'L': L, 'k': k, 'first': first})
    for variant in ('opened', 'new', 'edited', 'readded'):
        for n in LENGTHS:
            out.append({'variant': variant, 'n': n, 'extract': True, 'max_bs': 2050 if tier == 'thorough' else 130})
    return out


def dev_placements(L, k):
    slots = [(g, d) for g in range(L + 1) for d in DEVS]
    if k == 0:
        return [[]]
    out = []
    for r in range(1, k + 1):
        out += [list(c) for c in itertools.combinations(slots, r)]
    return out


def run_task(task):
    res = Result()
    variant, n = task['variant'], task['n']
    _IMAGES.clear()      # every task starts from freshly built images
    if task.get('extract'):
        iso, keep = build(variant)
        data = content_bytes('c%d' % n)
        sizes = list(range(1, task['max_bs'] + 1)) + [2047, 2048, 2049, 2050, 4096, 8192, 32768]
        for bs in sorted(set(sizes)):
            for kw in ({'iso_path': fname(n)}, {'joliet_path': '/f%d' % n}, {'udf_path': '/f%d' % n}):
                out = io.BytesIO()
                res.count('extractions')
                case = {'variant': variant, 'n': n, 'extract': bs, 'kw': kw, 'size': 1}
                try:
                    iso.get_file_from_iso_fp(out, blocksize=bs, **kw)
                except Exception as e:
                    res.violation('whole-file extraction returns the file', 'raises %s' % type(e).__name__, '%s blocksize %d raised %s' % (kw, bs, e), case)
                    continue
                if out.getvalue() != data:
                    res.violation('whole-file extraction returns the file', 'bytes differ', '%s blocksize %d: %d bytes, expected %d' % (kw, bs, len(out.getvalue()), len(data)), case)
        return res
    ops = stream_ops(n)
    L, k = task['L'], task['k']
    first = ops[task['first']]
    res.add('variants', '%s/%d' % (variant, n))
    for ln in range(1, L + 1):
        for rest in itertools.product(ops, repeat=ln - 1):
            script = [first] + list(rest)
            for devs in dev_placements(ln, k):
                if k > 0 and not devs:
                    continue
                res.count('executions')
                res.count('transitions', len(script) + len(devs))
                r = run_script(variant, n, script, devs)
                if r is not None:
                    i, msg = r
                    # the image object is shared by the scripts of one task: confirm on a freshly built one
                    _IMAGES.pop(variant, None)
                    r2 = run_script(variant, n, script, devs)
                    if r2 is not None and cls_of(script[r2[0]], r2[1]) == cls_of(script[i], msg):
                        case = {'variant': variant, 'n': n, 'script': [list(o) for o in script[:i + 1]], 'devs': [list(d) for d in devs if d[0] <= i + 1], 'size': i + 1 + len(devs)}
                        res.violation('stream behaves like an in-memory stream of the content', cls_of(script[i], msg), '%s devs=%s: %s' % (script[:i + 1], devs, msg), case)
                    else:
                        # only after the earlier scripts of this task ran on the same object: the whole task is the witness
                        case = {'variant': variant, 'n': n, 'task': dict(task), 'size': 1000}
                        res.violation('stream behaves like an in-memory stream of the content', 'after earlier reads on the same object: ' + cls_of(script[i], msg),
                                      'after the earlier scripts of this task: %s devs=%s: %s' % (script[:i + 1], devs, msg), case)
                        return res
                else:
                    res.add('outcomes', _stable((variant, n, tuple(script[-1:]))) & 0xffffff)
    if not res.viol:
        res.sample({'variant': variant, 'n': n, 'script': [list(o) for o in [first] + [ops[1]] * (L - 1)], 'devs': []})
    return res


def check_case(case):
    if 'task' in case:
        r = run_task(case['task'])
        return [{'clause': k[0], 'cls': k[1], 'msg': w['msg']} for k, w in r.viol.items()]
    _IMAGES.clear()
    if 'extract' in case:
        iso, keep = build(case['variant'])
        data = content_bytes('c%d' % case['n'])
        out = io.BytesIO()
        try:
            iso.get_file_from_iso_fp(out, blocksize=case['extract'], **case['kw'])
        except Exception as e:
            return [{'clause': 'whole-file extraction returns the file', 'cls': 'raises %s' % type(e).__name__, 'msg': str(e)}]
        if out.getvalue() != data:
            return [{'clause': 'whole-file extraction returns the file', 'cls': 'bytes differ', 'msg': 'differs'}]
        return []
    script = [tuple(o) for o in case['script']]
    r = run_script(case['variant'], case['n'], script, [tuple(d) for d in case['devs']])
    if r is None:
        return []
    i, msg = r
    return [{'clause': 'stream behaves like an in-memory stream of the content', 'cls': cls_of(script[i], msg), 'msg': msg}]


def shrink(case):
    if 'extract' in case or 'task' in case:
        return
    s, d = case['script'], case['devs']
    for i in range(len(s) - 1):
        c = dict(case)
        c['script'] = s[:i] + s[i + 1:]
        c['devs'] = [[g - 1 if g > i else g, k] for g, k in d]
        c['size'] = len(c['script']) + len(c['devs'])
        yield c
    for i in range(len(d)):
        c = dict(case)
        c['devs'] = d[:i] + d[i + 1:]
        c['size'] = len(c['script']) + len(c['devs'])
        yield c


def coverage(tier, r):
    return {
        'states': len(r.sets.get('outcomes', ())) or 1,
        'transitions': r.n.get('transitions', 0),
        'traces_validated_against_impl': r.n.get('executions', 0),
        'extractions': r.n.get('extractions', 0),
        'bound': [{'script_length': L, 'deviations': k, 'stream_alphabet': len(stream_ops(5)), 'deviation_kinds': len(DEVS)} for L, k in BOUNDS[tier]],
        'file_lengths': list(LENGTHS),
        'variants': ['opened image', 'added but not yet written', 'opened image edited and re-laid-out (scripts of length <= 2)',
                     'opened image whose files were looked up, removed and added again with other bytes (scripts of length <= 2)'],
        'exhaustive': True,
        'explanation': 'every stream script up to the length bound, with every placement of up to k interfering operations, on every file length, '
                       'on an opened and on an unwritten image, compared step by step with io.BytesIO; plus whole-file extraction with every block size',
    }
