"""C12 - Hybrid (MBR/GPT/APM) boot data is consistent with the image it describes (DESIGN.md section 4, C12)."""
import itertools
import struct

from mc import env, explore, ops
from mc.driver import cfg_name
from mc.framework import Result, h8
from mc.model import content_bytes
from mc.readers import r119, rboot, rhyb
from mc import decode as dec
from mc.oracles import norm

PROP = 'C12'
LEVEL = 'exploration'
ASSUMPTIONS = [
    'independent decoders rhyb (MBR/GPT/APM, own CRC32), rboot and r119 are trusted base',
    'GPT partition array CRC: the UEFI full-array CRC or the isohybrid convention (CRC over the used entries) are both accepted; primary and backup must agree',
    'EFI / Mac images are the El Torito sections with platform 0xef, in catalog order (first = EFI, second = Mac), as documented by add_isohybrid',
]
SECTOR = 2048
EFI_SIZES = {'B': 'c5000', 'C': 'c9000'}


def history(cfg, mode, sizes=('c5000', 'c9000'), pre=(), order='AB', fc=None, hyb=None, extra_tail=()):
    rr = cfg.get('rr')

    def fp(key, content, iso):
        kw = {'content': content, 'iso_path': iso}
        if rr:
            kw['rr_name'] = key.lower()
        if cfg.get('joliet'):
            kw['joliet_path'] = '/' + key.lower()
        if cfg.get('udf'):
            kw['udf_path'] = '/' + key.lower()
        return ['add_fp', kw]
    steps = [[op] for op in pre]
    steps.append([fp('A', 'boot', '/A.;1')])
    if mode in ('efi', 'efimac'):
        steps.append([fp('B', sizes[0], '/B.;1')])
    if mode == 'efimac':
        steps.append([fp('C', sizes[1], '/C.;1')])
    if mode in ('bios2', 'efibios2'):
        # a second x86 boot image whose file sorts after the first: the MBR must keep pointing at the initial entry's file
        steps.append([fp('Z', 'c4097', '/Z.;1')])
    if mode == 'efibios2':
        steps.append([fp('B', sizes[0], '/B.;1')])
    steps.append([['add_eltorito', {'bootfile_path': '/A.;1', 'boot_load_size': 4}]])
    if mode == 'efibios2':
        steps.append([['add_eltorito', {'bootfile_path': '/B.;1', 'efi': True, 'platform_id': 0xef}]])
    if mode in ('bios2', 'efibios2'):
        steps.append([['add_eltorito', {'bootfile_path': '/Z.;1'}]])
    if mode in ('efi', 'efimac'):
        steps.append([['add_eltorito', {'bootfile_path': '/B.;1', 'efi': True, 'platform_id': 0xef}]])
    if mode == 'efimac':
        steps.append([['add_eltorito', {'bootfile_path': '/C.;1', 'efi': True, 'platform_id': 0xef}]])
    base = list(steps)
    h = dict(hyb or {})
    if mode in ('efi', 'efibios2'):
        h.setdefault('efi', True)
    if mode == 'efimac':
        h.setdefault('mac', True)
    if fc == 'before':
        steps.append([['force_consistency', {}]])
    steps.append([['add_isohybrid', h]])
    if fc == 'after':
        steps.append([['force_consistency', {}]])
    for op in extra_tail:
        steps.append([op])
        base.append([op])
    return steps, base, h


def judge(cfg, steps, base, hyb, mode, sizes):
    """Returns (violations, info) for one hybrid image."""
    out = []
    impl, info = explore.run_history(cfg, steps)
    if impl is None:
        return None, info
    try:
        img = impl.write()
    except env.InvalidInput as e:
        # e.g. a partition offset beyond the end of the image: only known when the image is laid out
        return None, {'exc': e, 'op': ['write_fp', {}], 'refused': True}
    except Exception as e:
        t, site = explore.exc_site(e)
        return [{'clause': 'hybrid image masters', 'cls': '%s@%s' % (t, site), 'msg': 'write_fp raised %s: %s' % (t, str(e)[:200])}], None
    b_impl, b_info = explore.run_history(cfg, base)
    plain = b_impl.write()
    H = rhyb.decode(img)
    if not H.present:
        return [{'clause': 'MBR present', 'cls': 'no 55AA', 'msg': 'no MBR signature'}], None
    for c in H.complaints:
        out.append({'clause': 'MBR/GPT/APM well formed', 'cls': norm(c), 'msg': c})
    heads = hyb.get('geometry_heads', 64)
    sectors = hyb.get('geometry_sectors', 32)
    part_entry = hyb.get('part_entry', 1)
    part_offset = hyb.get('part_offset', 0)
    efi = mode in ('efi', 'efimac', 'efibios2')
    mac = mode == 'efimac'
    want_type = hyb.get('part_type')
    if want_type is None:
        want_type = 0 if (efi or mac) else 0x17
    cyl = heads * sectors * 512
    space = struct.unpack_from('<L', img, 16 * SECTOR + 80)[0] * SECTOR
    # padded to a whole number of cylinders, padding minimal and zero
    if len(img) % cyl:
        out.append({'clause': 'image padded to a whole number of cylinders', 'cls': 'not a multiple', 'msg': 'length %d, cylinder %d' % (len(img), cyl)})
    if len(img) - space >= cyl and not efi:
        out.append({'clause': 'image padded to a whole number of cylinders', 'cls': 'too much padding', 'msg': 'length %d, volume %d, cylinder %d' % (len(img), space, cyl)})
    # otherwise an unchanged valid ISO
    if img[32768:space] != plain[32768:space] or len(plain) != space:
        j = next((i for i in range(32768, min(space, len(plain))) if img[i] != plain[i]), -1)
        out.append({'clause': 'the ISO9660 volume is unchanged by hybridisation', 'cls': 'differs',
                    'msg': 'byte %d differs from the non-hybrid image (volume %d bytes, plain image %d bytes)' % (j, space, len(plain))})
    tail = img[space:]
    gpt_tail = 0
    if efi and H.gpt:
        gpt_tail = 512 + 128 * 128
    if tail[:len(tail) - gpt_tail].strip(b'\x00'):
        out.append({'clause': 'cylinder padding is zero', 'cls': 'nonzero padding', 'msg': 'non-zero bytes in the padding after the volume'})
    vol = r119.decode(img)
    comp = [c for c in vol.complaints if not c.startswith('image length')]     # a cylinder need not be a multiple of 2048
    if comp:
        out.append({'clause': 'hybrid image is a valid ISO for an independent reader', 'cls': norm(comp[0]), 'msg': '; '.join(comp[:3])})
    boot = rboot.decode(img)
    m = H.mbr
    active = [p for p in m['parts'] if p['status'] == 0x80]
    total512 = len(img) // 512
    if len(active) == 1:
        p = active[0]
        if p['index'] != part_entry:
            out.append({'clause': 'active partition in the requested slot', 'cls': 'slot', 'msg': 'active partition %d, requested %d' % (p['index'], part_entry)})
        if p['type'] != want_type:
            out.append({'clause': 'partition type as requested', 'cls': 'type', 'msg': 'type %#x, expected %#x' % (p['type'], want_type)})
        if p['lba'] != part_offset:
            out.append({'clause': 'partition starts at the requested offset', 'cls': 'lba', 'msg': 'start %d, requested %d' % (p['lba'], part_offset)})
        if p['lba'] + p['size'] != total512:
            out.append({'clause': 'active partition covers the cylinder-padded image', 'cls': 'size' + (' (>1024 cylinders)' if len(img) // cyl > 1024 else ''),
                        'msg': 'partition [%d,+%d) ends at %d, image has %d sectors of 512 bytes (%d cylinders)' % (p['lba'], p['size'], p['lba'] + p['size'], total512, len(img) // cyl)})
        # CHS of the first and last sector per the geometry (cylinder clipped to 1023)
        def want_chs(lba):
            c = lba // (heads * sectors)
            return (min(c, 1023), (lba // sectors) % heads, lba % sectors + 1) if c <= 1023 else (1023, heads - 1, sectors)
        if p['chs_start'] != want_chs(part_offset):
            out.append({'clause': 'CHS start matches the geometry', 'cls': 'chs start', 'msg': '%s, expected %s' % (p['chs_start'], want_chs(part_offset))})
        last = total512 - 1
        if p['chs_end'] != want_chs(last):
            out.append({'clause': 'CHS end matches the geometry', 'cls': 'chs end' + (' (>1024 cylinders)' if len(img) // cyl > 1024 else ''),
                        'msg': '%s, expected %s (geometry %dx%d, %d cylinders)' % (p['chs_end'], want_chs(last), heads, sectors, len(img) // cyl)})
    if boot.present and boot.entries:
        if m['rba'] != boot.entries[0]['rba'] * 4 or m['rba_hi'] != 0:
            out.append({'clause': 'boot file address is four times the boot file sector', 'cls': 'rba', 'msg': 'MBR says %d, boot file at sector %d' % (m['rba'], boot.entries[0]['rba'])})
    else:
        out.append({'clause': 'El Torito present', 'cls': 'no boot', 'msg': 'no El Torito entries'})
    if 'mbr_id' in hyb and hyb['mbr_id'] is not None and m['mbr_id'] != hyb['mbr_id']:
        out.append({'clause': 'mbr id as requested', 'cls': 'mbr_id', 'msg': '%#x vs %#x' % (m['mbr_id'], hyb['mbr_id'])})
    # EFI / Mac
    if efi:
        efi_entries = [e for e in boot.entries if e['platform'] == 0xef]
        want_imgs = []
        for e, key in zip(efi_entries, sizes):
            ln = len(content_bytes(key))
            want_imgs.append((e['rba'] * 4, ((ln + SECTOR - 1) // SECTOR) * 4))
        if H.gpt is None or not H.gpt.get('entries'):
            out.append({'clause': 'GPT present when EFI is requested', 'cls': 'no gpt', 'msg': 'no GPT found'})
        else:
            ents = H.gpt['entries']
            if len(ents) != (3 if mac else 2):
                out.append({'clause': 'GPT has one partition per image', 'cls': 'count', 'msg': '%d partitions' % len(ents)})
            if ents and (ents[0]['first'] != 0 or ents[0]['last'] != space // 512 - 1):
                out.append({'clause': 'first GPT partition delimits the ISO', 'cls': 'iso partition', 'msg': '[%d,%d], volume is %d sectors' % (ents[0]['first'], ents[0]['last'], space // 512)})
            for i, (first, count) in enumerate(want_imgs):
                if i + 1 < len(ents):
                    e = ents[i + 1]
                    if e['first'] != first or e['last'] != first + count - 1:
                        out.append({'clause': 'GPT partitions delimit exactly the El Torito images', 'cls': 'gpt partition %d' % (i + 1),
                                    'msg': 'partition %d is [%d,%d], image occupies [%d,%d]' % (i + 1, e['first'], e['last'], first, first + count - 1)})
            if H.gpt.get('first_usable', 0) > H.gpt.get('last_usable', 0):
                out.append({'clause': 'GPT usable range sane', 'cls': 'usable', 'msg': 'first %d last %d' % (H.gpt['first_usable'], H.gpt['last_usable'])})
        # MBR entries for EFI (slot 2) and Mac (slot 3)
        slots = {2: want_imgs[0] if want_imgs else None, 3: want_imgs[1] if mac and len(want_imgs) > 1 else None}
        for idx, w in slots.items():
            if w is None or idx == part_entry:
                continue
            p = m['parts'][idx - 1]
            if (p['lba'], p['size']) != w:
                out.append({'clause': 'MBR EFI/Mac partitions delimit the El Torito images', 'cls': 'mbr slot %d' % idx,
                            'msg': 'slot %d is [%d,+%d), image is [%d,+%d)' % (idx, p['lba'], p['size'], w[0], w[1])})
        if mac:
            if len(H.apm) < 3:
                out.append({'clause': 'APM present when Mac is requested', 'cls': 'apm count', 'msg': '%d APM entries' % len(H.apm)})
            else:
                for a, (first, count) in zip(H.apm[1:], want_imgs):
                    if a['start'] * 4 != first or a['count'] * 4 != count:
                        out.append({'clause': 'APM partitions delimit exactly the El Torito images', 'cls': 'apm block %d' % a['block'],
                                    'msg': 'APM entry %d is [%d,+%d) 2048-byte blocks, image is [%d,+%d) 512-byte sectors' % (a['block'], a['start'], a['count'], first, count)})
    return out, {'cyl': len(img) // cyl, 'len': len(img)}


def geometry_cases(tier):
    modes = ('plain', 'efi', 'efimac')
    for mode in modes:
        for s in range(1, 64):
            for hd in range(1, 257):
                if tier == 'quick' and mode != 'plain' and not (s in (1, 2, 32, 63) and hd in (1, 2, 64, 255, 256)):
                    continue
                yield {'kind': 'geometry', 'cfg': ops.mk(1), 'mode': mode, 'hyb': {'geometry_sectors': s, 'geometry_heads': hd}}


def param_cases(tier):
    for mode in ('plain', 'efi', 'efimac'):
        for pe, po, pt, mid in itertools.product((1, 2, 3, 4), (0, 1, 63, 64, 16065), (None, 0, 0x17, 0xff), (None, 0, 0xffffffff)):
            if mode == 'efimac' and pt not in (None, 0):
                continue
            hyb = {'part_entry': pe, 'part_offset': po}
            if pt is not None:
                hyb['part_type'] = pt
            if mid is not None:
                hyb['mbr_id'] = mid
            yield {'kind': 'params', 'cfg': ops.mk(1), 'mode': mode, 'hyb': hyb}
    # cylinder counts up to and beyond 1024: tiny geometries on small and large (UDF) images
    for cfg in (ops.mk(1), ops.mk(3, udf=True), ops.mk(3, joliet=3, rr='1.09')):
        for mode in ('plain', 'efi', 'efimac'):
            for s, hd in ((1, 1), (1, 2), (2, 1), (1, 3), (4, 1), (63, 255)):
                yield {'kind': 'cylinders', 'cfg': cfg, 'mode': mode, 'hyb': {'geometry_sectors': s, 'geometry_heads': hd}}
    # images of different sizes in every order
    for mode in ('efi', 'efimac'):
        for sizes in itertools.permutations(('c5000', 'c9000', 'c2049'), 2):
            for cfg in (ops.mk(1), ops.mk(3, joliet=3), ops.mk(3, udf=True)):
                yield {'kind': 'sizes', 'cfg': cfg, 'mode': mode, 'hyb': {}, 'sizes': list(sizes)}
    # histories that move the boot files before mastering, and consistency forced before/after add_isohybrid
    for cfg in (ops.mk(1), ops.mk(3, joliet=3, rr='1.09'), ops.mk(3, udf=True)):
        for mode in ('plain', 'efi', 'efimac', 'bios2', 'efibios2'):
            for fc in (None, 'before', 'after'):
                for pre in ((), (ops.add_dir(cfg, 'D1'),), tuple(ops.grow_dir_step(cfg, '/', n=12 if cfg['level'] > 1 else 48))):
                    for tail in ((), (ops.add_dir(cfg, 'E1', 'iso'),), (ops.add_fp(cfg, 'AB', '/', 'c2049'),)):
                        yield {'kind': 'history', 'cfg': cfg, 'mode': mode, 'hyb': {}, 'fc': fc, 'pre': [list(p) for p in pre], 'tail': [list(t) for t in tail]}


def run_one(case):
    sizes = tuple(case.get('sizes', ('c5000', 'c9000')))
    steps, base, hyb = history(case['cfg'], case['mode'], sizes, pre=case.get('pre', ()), fc=case.get('fc'), hyb=case['hyb'], extra_tail=case.get('tail', ()))
    return judge(case['cfg'], steps, base, hyb, case['mode'], sizes)


def tasks(tier):
    cases = list(geometry_cases(tier)) + list(param_cases(tier))
    n = 64
    return [{'cases': cases[i::n]} for i in range(n)]


def run_task(task):
    res = Result()
    for case in task['cases']:
        case = dict(case, size=len(str(case['hyb'])) + len(case.get('pre', ())) + len(case.get('tail', ())))
        vs, info = run_one(case)
        res.count('evaluations')
        if vs is None:
            res.count('refused')
            res.note('refusals', '%s %s: %s' % (case['mode'], case['hyb'], str(info['exc'])[:60]))
            res.add('classes', 'refused:' + str(info['exc'])[:40])
            continue
        res.add('classes', '%s/%s/%s' % (case['kind'], case['mode'], 'cyl>1024' if info and info['cyl'] > 1024 else 'cyl<=1024'))
        if info:
            res.mx('max_cylinders', info['cyl'])
        for v in vs:
            res.violation(v['clause'], v['cls'], v['msg'], case)
        if not vs:
            res.sample(case)
    return res


def check_case(case):
    vs, info = run_one(case)
    return vs or []


def shrink(case):
    for k in ('pre', 'tail'):
        if case.get(k):
            c = dict(case)
            c[k] = []
            yield c
    if case.get('fc'):
        c = dict(case)
        c['fc'] = None
        yield c
    for k in list(case['hyb']):
        c = dict(case)
        c['hyb'] = dict((a, b) for a, b in case['hyb'].items() if a != k)
        yield c


MINIMISE = True


def coverage(tier, r):
    return {
        'evaluations': r.n.get('evaluations', 0),
        'distinct_nontrivial': len(r.sets.get('classes', ())),
        'rule': 'complete products: geometry sectors 1..63 x heads 1..256 (all three modes in the thorough tier; plain + a grid for EFI/Mac in quick); '
                'part_entry x part_offset x part_type x mbr_id; tiny geometries giving > 1024 cylinders; EFI/Mac images of different sizes in every order; '
                'histories moving the boot files with force_consistency before/after add_isohybrid.  distinct = (family, mode, cylinder class) classes',
        'exhaustive': True,
        'refused': r.n.get('refused', 0),
    }
