"""C04 - sector allocation is sound (DESIGN.md section 4): MASTER-ENUM histories + growth chains with the oracles.oracle_alloc oracle."""
from mc import master, ops, oracles
from mc.props import _std

B = _std.default_bounds(ce=True, big=True)
B['thorough'].append(('big', _std.BIG_GEN2))      # allocation of second-generation images with multi-gigabyte files

_std.install(globals(), 'C04', 'model_checking', [oracles.oracle_alloc], B,
             ['allocation map = union of the layout maps of the independent decoders', 'write log recorded by the sink passed to write_fp'] + ['alphabet sigma1 of mc/ops.py and the depth bounds listed in the evidence'])
