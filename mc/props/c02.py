"""C02 - Editing an existing image preserves everything not edited (DESIGN.md section 4, C02)."""
from mc import master, ops, oracles
from mc.props import _std

BOUNDS = {
    # exhaustive short generations: every history of depth <= d over sigma1/reopen (REOPEN is an alphabet member, <= 2 per history)
    'quick': [('dfs', 'reopen', ops.CFG_MULTI[:3], 3, 2), ('reopen', [ops.CFG_MULTI[1], ops.CFG_MULTI[3]], 2),
              ('alpha', 'sigma_ce_reopen', ops.CFG_RR[2:3], 6, 2), ('big', ['gen2-iso-lim+1'])],
    'thorough': [('dfs', 'reopen', ops.CFG12, 3, 2), ('dfs', 'reopen', ops.CFG_MULTI[:1], 4, 2), ('reopen', ops.CFG12, 2), ('reopen', ops.CFG_MULTI[:1], 3),
                 ('alpha', 'sigma_ce_reopen', ops.CFG_RR[1:3], 6, 2), ('big', _std.BIG_GEN2)],
}

_std.install(globals(), 'C02', 'model_checking', [master.oracle_roundtrip, master.oracle_live], BOUNDS,
             ['reference model carried across REOPEN (zero-length contents lose their link association, as documented at rm_file)',
              'foreign-image corpus of the quantifier is not vendored (Git-LFS pointers only): only images the library produces are explored',
              'REOPEN = write_fp to memory, open_fp of the bytes in a fresh PyCdlib object'])
