"""C14 - Failure atomicity (DESIGN.md section 4, C14): refused calls as deviations over E1."""
import io

from mc import env, explore, faults, master, ops
from mc.driver import Impl, cfg_name
from mc.framework import Result, h8
from mc.model import content_bytes

PROP = 'C14'
LEVEL = 'fault_enumeration'
ASSUMPTIONS = [
    'fault transitions = candidate calls of mc/faults.py that actually raise on the real object (any exception type)',
    'differential oracle: twin objects with and without the refused call must master identical bytes and behave identically afterwards',
]

BOUNDS = {
    # profile, cfgs, depth, shard k, number of refused calls
    'quick': [('quick', ops.CFG_MULTI[1:5], 1, 1, 1), ('quick', ops.CFG_MULTI[3:4], 2, 1, 1)],
    'thorough': [('quick', ops.CFG_MULTI + ops.CFG12[:3], 2, 1, 1), ('quick', ops.CFG_MULTI[1:4], 1, 1, 2)],
}


def apply_fault(impl, f):
    """Apply a candidate faulty call.  Returns the exception or None if it was accepted."""
    name, kw = f[0], dict(f[1])
    try:
        if name == 'add_fp':
            data = content_bytes(kw.pop('content'))
            fp = io.BytesIO(data)
            impl.keep.append(fp)
            impl.iso.add_fp(fp, len(data), **kw)
        elif name == 'new':
            impl.iso.new()
        elif name == 'open_fp_garbage':
            impl.iso.open_fp(io.BytesIO(b'\x00' * 40000))
        elif name == 'modify_file_in_place_nobacking':
            if impl.backing is not None:
                return None
            impl.iso.modify_file_in_place(io.BytesIO(b'zz'), 2, kw['iso_path'])
        else:
            getattr(impl.iso, name)(**kw)
    except Exception as e:
        return e
    return 'accepted'


def run_twin(cfg, steps, gap, fs):
    """
    Returns dict with baseline/twin observations:
    images right after the gap (write), outcome of each remaining step, final image.
    fs = list of faulty calls applied at the gap (all must raise; otherwise returns None).
    """
    def go(with_faults):
        env.reset()
        impl = Impl(cfg)
        excs = []
        for s in steps[:gap]:
            for op in s:
                impl.apply(op)
        if with_faults:
            for f in fs:
                r = apply_fault(impl, f)
                if r is None or r == 'accepted':
                    return None
                excs.append(r)
        obs = {'excs': excs}
        try:
            obs['mid'] = impl.write()
        except Exception as e:
            obs['mid'] = 'EXC %s@%s: %s' % (explore.exc_site(e) + (str(e)[:120],))
        outcomes = []
        for s in steps[gap:]:
            for op in s:
                try:
                    impl.apply(op)
                    outcomes.append('ok')
                except Exception as e:
                    outcomes.append('EXC %s: %s' % (type(e).__name__, str(e)[:80]))
        obs['outcomes'] = outcomes
        try:
            obs['final'] = impl.write()
        except Exception as e:
            obs['final'] = 'EXC %s@%s: %s' % (explore.exc_site(e) + (str(e)[:120],))
        return obs
    twin = go(True)
    if twin is None:
        return None, None
    return go(False), twin


def _region(img, j):
    r = master.region_name(img, j)
    if r.startswith('vd type'):
        return r.split(' @')[0]
    if r.startswith('udf tag'):
        return r.split(' @')[0]
    if r.startswith('other'):
        return 'data/directory sector'
    return r


def judge(base, twin, fs):
    """
    Signature class = refused call site + how the residue shows:
    '<mutator> (<exc>@<raise site>) -> <manifestation>'.
    """
    fname = '+'.join(f[0] for f in fs)
    site = '/'.join('%s@%s' % explore.exc_site(e) for e in twin['excs'])
    head = '%s (%s)' % (fname, site)
    out = []
    if isinstance(twin['mid'], str):
        out.append({'clause': 'write succeeds after a refused call', 'cls': '%s -> write raises %s' % (head, twin['mid'].split(':')[0][4:] + ':' + twin['mid'].split(':')[1]),
                    'msg': 'after refused %s (%s) write_fp: %s' % (fs, site, twin['mid'])})
    elif not isinstance(base['mid'], str) and twin['mid'] != base['mid']:
        j = master.first_diff(twin['mid'], base['mid'])
        how = 'image length' if len(twin['mid']) != len(base['mid']) else _region(base['mid'], j)
        out.append({'clause': 'bytes after a refused call equal bytes without it', 'cls': '%s -> differs in %s' % (head, how),
                    'msg': 'after refused %s (%s): %s' % (fs, site, master.describe_diff(base['mid'], twin['mid']))})
    elif twin['outcomes'] != base['outcomes']:
        out.append({'clause': 'later edits behave normally', 'cls': '%s -> later outcomes' % head,
                    'msg': 'after refused %s: outcomes %s vs %s' % (fs, twin['outcomes'], base['outcomes'])})
    elif twin['final'] != base['final']:
        if isinstance(twin['final'], str) or isinstance(base['final'], str):
            d = '%s vs %s' % (str(base['final'])[:100], str(twin['final'])[:100])
        else:
            d = master.describe_diff(base['final'], twin['final'])
        out.append({'clause': 'final bytes equal', 'cls': '%s -> final' % head,
                    'msg': 'after refused %s: %s' % (fs, d)})
    return out


def check_node(cfg, steps, nfaults, res=None):
    viols = []
    for gap in range(len(steps) + 1):
        model = explore.model_of(cfg, steps[:gap])
        cands = faults.candidates(cfg, model)
        sets = [[f] for f in cands]
        if nfaults >= 2:
            # pairs: restricted to ordered pairs of distinct mutators (k = 2)
            sets += [[a, b] for a in cands for b in cands if a[0] != b[0]]
        for fs in sets:
            base, twin = run_twin(cfg, steps, gap, fs)
            if twin is None:
                if res is not None:
                    res.count('candidates_accepted_or_inapplicable')
                continue
            if res is not None:
                res.count('fault_transitions')
                for f, e in zip(fs, twin['excs']):
                    res.add('fault_classes', '%s|%s|%s' % ((f[0],) + explore.exc_site(e)))
                    if not isinstance(e, env.DOCUMENTED):
                        res.note('undocumented_exception_types', '%s: %s@%s' % ((f[0],) + explore.exc_site(e)))
            for v in judge(base, twin, fs):
                viols.append((v, {'cfg': cfg, 'steps': steps, 'gap': gap, 'faults': fs}))
    return viols


def alphabet(model, profile):
    """sigma1 plus one step that needs Rock Ridge relocation (state set by refused calls may only show there)."""
    out = ops.sigma1(model, profile)
    if model.cfg.get('rr') and model.cfg.get('level', 1) < 4:
        step = ops.deep_chain_step(model.cfg, 8, with_file=False)
        m2 = ops.enabled(model, step)
        if m2 is not None:
            out.append((step, m2))
    # a directory that is empty in all namespaces but one (rm_directory through every namespace must then refuse atomically)
    for mode in ('uonly', 'jonly'):
        child = ops.add_fp(model.cfg, 'AB', 'D1', 'c1', mode)
        if child is None:
            continue
        for step in ([child], [ops.add_dir(model.cfg, 'D1'), child]):
            m2 = ops.enabled(model, step)
            if m2 is not None:
                out.append((step, m2))
                break
    # a file whose Joliet / UDF names are not ASCII (a taken name whose stored form differs from the path component)
    uni = [ops.add_fp(model.cfg, 'UNI', '/', 'c1')]
    m2 = ops.enabled(model, uni)
    if m2 is not None and (model.cfg.get('joliet') or model.cfg.get('udf')):
        out.append((uni, m2))
    # an image that add_isohybrid accepts (boot file with the isolinux signature, load size 4), so that its refusals for
    # bad geometry / partition parameters are reached
    hyb = [ops.add_fp(model.cfg, 'B', '/', 'boot'), ['add_eltorito', {'bootfile_path': '/B.;1', 'boot_load_size': 4}]]
    m2 = ops.enabled(model, hyb)
    if m2 is not None:
        out.append((hyb, m2))
    # names that collide with the *default* boot catalog names of add_eltorito in one namespace only
    a = ops.add_fp(model.cfg, 'A', '/', 'c1')
    for mode in ('jonly', 'uonly') if profile == 'quick' else ('jonly', 'uonly', 'iso'):
        cat = ops.add_fp(model.cfg, 'CAT', '/', 'c1s3', mode)
        if cat is None:
            continue
        # together with a file that can serve as boot file when there is none yet
        for step in ([a, cat], [cat]):
            m2 = ops.enabled(model, step)
            if m2 is not None:
                out.append((step, m2))
                break
    return out


def tasks(tier):
    out = []
    for profile, cfgs, depth, k, nf in BOUNDS[tier]:
        for cfg in cfgs:
            fn = lambda m, p=profile: alphabet(m, p)
            shallow, roots = explore.shards(cfg, fn, min(k, depth))
            common = {'cfg': cfg, 'profile': profile, 'depth': depth, 'nf': nf}
            out.append(dict(common, shallow=shallow))
            for r in roots:
                out.append(dict(common, root=r))
    return out


def run_task(task):
    res = Result()
    cfg = task['cfg']
    fn = lambda m: alphabet(m, task['profile'])
    res.add('configs', cfg_name(cfg))

    def visit(cfg, steps, model, res):
        impl, info = explore.run_history(cfg, steps)
        if impl is None:
            return False
        res.count('base_histories')
        res.add('model_states', model.canon())
        vs = check_node(cfg, steps, task['nf'], res)
        for v, case in vs:
            res.violation(v['clause'], v['cls'], v['msg'], case)
        if not vs:
            res.sample({'cfg': cfg, 'steps': steps, 'faults': 'every candidate at every gap'})
        return True
    if 'shallow' in task:
        for steps in task['shallow']:
            visit(cfg, steps, explore.model_of(cfg, steps), res)
    else:
        explore.dfs(cfg, task['root'], task['depth'], fn, visit, res)
    return res


def check_case(case):
    base, twin = run_twin(case['cfg'], case['steps'], case['gap'], case['faults'])
    if twin is None:
        return []
    return judge(base, twin, case['faults'])


def shrink(case):
    steps, gap = case['steps'], case['gap']
    for i in range(len(steps)):
        c = dict(case)
        c['steps'] = steps[:i] + steps[i + 1:]
        c['gap'] = gap - 1 if i < gap else gap
        yield c
    if len(case['faults']) > 1:
        for i in range(len(case['faults'])):
            c = dict(case)
            c['faults'] = case['faults'][:i] + case['faults'][i + 1:]
            yield c


def coverage(tier, r):
    return {
        'evaluations': r.n.get('fault_transitions', 0),
        'distinct_nontrivial': len(r.sets.get('fault_classes', ())),
        'rule': 'every candidate faulty call of mc/faults.py at every gap of every base history (sigma1, depth bound); an evaluation is a call that '
                'actually raised; distinct = distinct (mutator, exception type, raise site) classes',
        'base_histories': r.n.get('base_histories', 0),
        'bound': [{'configs': len(c), 'depth': d, 'refused_calls': nf} for p, c, d, k, nf in BOUNDS[tier]],
        'exhaustive': True,
    }
