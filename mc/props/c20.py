"""C20 - Tools round trip: extracting a built image reproduces the source tree (DESIGN.md section 4, C20)."""
import contextlib
import importlib.machinery
import importlib.util
import io
import itertools
import os
import shutil
import sys

from mc import env
from mc.framework import Result
from mc.model import iso_dir_legal, iso_file_legal
from mc.readers import r119, r167, rsusp
from mc import decode as dec

PROP = 'C20'
LEVEL = 'exploration'
ASSUMPTIONS = [
    'both tools are executed in-process (module loaded from /repo/tools, sys.argv/stdout patched); source trees live in a scratch directory outside /repo and /verif',
    'Joliet cannot record symbolic links: in the Joliet view a symlink may extract as an empty file or be absent',
    'umask 022, files 0644, directories 0755; modes are not compared (-r rationalises them)',
]
SCRATCH = '/var/tmp/verif_c20'


def load_tool(name):
    path = os.path.join(env.REPO, 'tools', name)
    modname = name.replace('-', '_') + '_c20'
    loader = importlib.machinery.SourceFileLoader(modname, path)
    spec = importlib.util.spec_from_loader(modname, loader)
    mod = importlib.util.module_from_spec(spec)
    loader.exec_module(mod)
    return mod


_TOOLS = {}


def run_tool(name, argv):
    if name not in _TOOLS:
        _TOOLS[name] = load_tool(name)
    mod = _TOOLS[name]
    old = sys.argv
    sys.argv = [name] + argv
    out = io.StringIO()
    rc = 0
    cwd = os.getcwd()
    try:
        with contextlib.redirect_stdout(out), contextlib.redirect_stderr(out):
            try:
                r = mod.main()
                rc = r or 0
            except SystemExit as e:
                rc = e.code if isinstance(e.code, int) else (0 if e.code is None else 1)
    except Exception as e:
        import traceback
        return ('EXC', '%s: %s' % (type(e).__name__, str(e)[:150]), traceback.format_exc()[-600:])
    finally:
        sys.argv = old
        os.chdir(cwd)      # pycdlib-extract-files changes directory while creating symlinks
    return (rc, out.getvalue()[-400:], '')


# ----------------------------------------------------------------------------- source trees
# a tree is a list of (relative path, kind, payload)   kind in file|dir|link

def D(n):
    return bytes((i * 11 + n) % 251 for i in range(n))


TREES = {
    'basic': [('ab.txt', 'file', D(1)), ('sub', 'dir', None), ('sub/inner.dat', 'file', D(2049)), ('empty', 'file', b'')],
    'collide': [('ab.txt', 'file', D(1)), ('AB.txt', 'file', D(2)), ('ab.TXT', 'file', D(3))],
    'collide-short': [('a', 'file', D(1)), ('A', 'file', D(2)), ('dir', 'dir', None), ('DIR', 'dir', None)],
    'long-and-unicode': [('x' * 40 + '.dat', 'file', D(5)), ('naïve.txt', 'file', D(6)), ('中.bin', 'file', D(7)), ('.hidden', 'file', D(8)), ('a.b.c', 'file', D(9))],
    'symlinks': [('target.txt', 'file', D(10)), ('link', 'link', 'target.txt'), ('up', 'link', '..'), ('dangling', 'link', 'no/such/file'), ('d', 'dir', None), ('d/l2', 'link', '../target.txt')],
    'dups': [('one.bin', 'file', D(300)), ('two.bin', 'file', D(300)), ('three.bin', 'file', D(301)), ('s', 'dir', None), ('s/four.bin', 'file', D(300))],
    'dups-order': [('a1.bin', 'file', b'X' * 64), ('s', 'dir', None), ('s/b1.bin', 'file', b'Y' * 64), ('s/b2.bin', 'file', b'Y' * 64), ('z.bin', 'file', b'X' * 64)],
    # scan order is breadth first: root file X, then two identical files Y of the same size in a sub-directory
    'dups-xyy': [('a1.bin', 'file', b'X' * 64), ('s', 'dir', None), ('s/b1.bin', 'file', b'Y' * 64), ('s/b2.bin', 'file', b'Y' * 64)],
    'dups-xyx': [('a1.bin', 'file', b'X' * 64), ('s', 'dir', None), ('s/b1.bin', 'file', b'Y' * 64), ('s/t', 'dir', None), ('s/t/c1.bin', 'file', b'X' * 64)],
    # the duplicate scan hashes in 32 KiB chunks: same size, same last chunk, different first chunk; and true duplicates
    'dups-big': [('fw_a.bin', 'file', b'A' * 32768 + b'T' * 32768), ('fw_b.bin', 'file', b'B' * 32768 + b'T' * 32768), ('fw_c.bin', 'file', b'A' * 32768 + b'T' * 32768),
                 ('img_a.dat', 'file', b'X' * 40000), ('img_b.dat', 'file', b'Y' * 32768 + b'X' * 7232)],
    'long-symlinks': [('t', 'file', D(3))] + [('l%03d' % n, 'link', 'a' * n + '/bbbb/cc') for n in range(100, 141)],
    'empty-dirs': [('e1', 'dir', None), ('e1/e2', 'dir', None), ('f', 'file', b'')],
    'deep': [('/'.join('d%d' % i for i in range(1, k + 1)), 'dir', None) for k in range(1, 10)] + [('/'.join('d%d' % i for i in range(1, 10)) + '/leaf.txt', 'file', D(11))],
    'many': [('file%02d.txt' % i, 'file', D(i + 1)) for i in range(45)],
    'boot': [('boot.img', 'file', D(2048)), ('data.txt', 'file', D(3))],
    # UDF records Latin-1 names in 8 bits and everything else in 16 bits: mix them along one path
    'unicode-nested': [('中', 'dir', None), ('中/ä.txt', 'file', D(12)), ('中/plain.txt', 'file', D(13)), ('ä', 'dir', None), ('ä/中.txt', 'file', D(14)),
                       ('ä/sub', 'dir', None), ('ä/sub/中', 'dir', None), ('ä/sub/中/x.txt', 'file', D(15))],
    'very-long-names': [('n' * 180 + '.txt', 'file', D(16)), ('m' * 186, 'file', D(17)), ('中' * 62, 'file', D(18)), ('d' * 185, 'dir', None), ('d' * 185 + '/f', 'file', D(19))],
    'boot-sub': [('isolinux', 'dir', None), ('isolinux/isolinux.bin', 'file', D(2048)), ('data.txt', 'file', D(3)), ('other', 'dir', None), ('other/x.txt', 'file', D(4))],
    'hide': [('keep.txt', 'file', D(1)), ('secret.txt', 'file', D(2)), ('skip.bak', 'file', D(3))],
}


def make_tree(root, tree):
    os.makedirs(root)
    for rel, kind, payload in tree:
        p = os.path.join(root, rel)
        os.makedirs(os.path.dirname(p), exist_ok=True)
        if kind == 'dir':
            os.makedirs(p, exist_ok=True)
        elif kind == 'file':
            with open(p, 'wb') as f:
                f.write(payload)
        else:
            os.symlink(payload, p)


def scan(root):
    out = {}
    for dp, dns, fns in os.walk(root):
        for n in dns + fns:
            p = os.path.join(dp, n)
            rel = os.path.relpath(p, root)
            if os.path.islink(p):
                out[rel] = ('link', os.readlink(p))
            elif os.path.isdir(p):
                out[rel] = ('dir', None)
            else:
                with open(p, 'rb') as f:
                    out[rel] = ('file', f.read())
    return out


# ----------------------------------------------------------------------------- option sets

def option_sets(tier):
    levels = (1, 2, 3, 4)
    rrs = ([], ['-R'], ['-r'], ['-rrip110', '-r'], ['-rrip112', '-R'], ['-rrip112'])
    out = []
    for lvl in levels:
        for rr in rrs:
            for j in ([], ['-J']):
                for u in ([], ['-udf']):
                    for dup in ([], ['-scan-for-duplicates']):
                        if tier == 'quick' and dup and (lvl not in (1, 3) or len(rr) > 1):
                            continue
                        if tier == 'quick' and lvl == 2:
                            continue
                        out.append(['-iso-level', str(lvl)] + rr + j + u + dup)
    return out


def special_cases():
    """(tree name, extra options, expectation tweak)"""
    return [
        ('boot', ['-b', 'boot.img', '-c', 'boot.cat', '-no-emul-boot'], 'boot'),
        ('boot', ['-b', 'boot.img', '-c', 'boot.cat', '-no-emul-boot', '-boot-info-table', '-boot-load-size', '4'], 'boot'),
        ('boot-sub', ['-b', 'isolinux/isolinux.bin', '-c', 'isolinux/boot.cat', '-no-emul-boot'], 'boot'),
        ('boot-sub', ['-b', 'isolinux/isolinux.bin', '-c', 'isolinux/boot.cat', '-no-emul-boot', '-boot-info-table', '-boot-load-size', '4'], 'boot'),
        ('boot-sub', ['-b', 'isolinux/isolinux.bin', '-c', 'boot.cat', '-no-emul-boot'], 'boot'),
        ('hide', ['-hide', 'secret.txt'], 'hide'),
        ('hide', ['-hide-joliet', 'secret.txt'], 'hide-joliet'),
        ('hide', ['-hidden', 'secret.txt'], 'hidden'),
        ('hide', ['-m', 'skip.bak'], 'exclude'),
        ('hide', ['-m', '*.bak', '-hide', 'secret.*'], 'exclude+hide'),
    ]


# ----------------------------------------------------------------------------- one round trip

def roundtrip(tree_name, opts, tweak, workdir, res=None):
    viols = []
    tree = TREES[tree_name]
    shutil.rmtree(workdir, ignore_errors=True)
    src = os.path.join(workdir, 'src')
    make_tree(src, tree)
    isofile = os.path.join(workdir, 'out.iso')
    what = '%s %s' % (tree_name, ' '.join(opts))
    r = run_tool('pycdlib-genisoimage', ['-quiet'] + opts + ['-o', isofile, src])
    if r[0] != 0:
        viols.append({'clause': 'pycdlib-genisoimage builds the image', 'cls': 'genisoimage ' + (r[1].split(':')[0] if r[0] == 'EXC' else 'exit %s' % r[0]),
                      'msg': '%s: %s %s' % (what, r[0], r[1][-200:])})
        return viols
    with open(isofile, 'rb') as f:
        img = f.read()
    want = scan(src)
    has_rr = any(o in opts for o in ('-R', '-r', '-rrip110', '-rrip112'))
    has_j = '-J' in opts
    has_u = '-udf' in opts
    lvl = int(opts[opts.index('-iso-level') + 1])
    excluded = set()
    hidden_iso = set()
    hidden_j = set()
    import fnmatch
    for flag, target in (('-m', excluded), ('-hide', hidden_iso), ('-hide-joliet', hidden_j)):
        for i, o in enumerate(opts):
            if o == flag:
                for rel in want:
                    if fnmatch.fnmatch(os.path.basename(rel), opts[i + 1]):
                        target.add(rel)
    if 'boot' in tweak:
        pass
    # --- extensions and level exactly as requested (independent decoders)
    d = dec.decode_iso(img)
    u = r167.decode(img)
    if bool(d.rr and d.rr.present) != has_rr:
        viols.append({'clause': 'the image has exactly the requested extensions', 'cls': 'rock ridge %s' % ('missing' if has_rr else 'unexpected'), 'msg': what})
    if ('joliet' in d.vol.trees) != has_j:
        viols.append({'clause': 'the image has exactly the requested extensions', 'cls': 'joliet %s' % ('missing' if has_j else 'unexpected'), 'msg': what})
    if u.present != has_u:
        viols.append({'clause': 'the image has exactly the requested extensions', 'cls': 'udf %s' % ('missing' if has_u else 'unexpected'), 'msg': what})
    if ('enhanced' in d.vol.trees) != (lvl == 4):
        viols.append({'clause': 'the image has exactly the requested level', 'cls': 'enhanced descriptor', 'msg': what})
    if has_rr and d.rr and d.rr.present:
        want112 = '-rrip112' in opts
        if (d.rr.px_len == 44) != want112:
            viols.append({'clause': 'the image has exactly the requested extensions', 'cls': 'rock ridge version', 'msg': '%s: PX length %s' % (what, d.rr.px_len)})
    # --- plain ISO9660 view: every source file exactly once under a legal, distinct identifier
    t = d.vol.trees.get('iso')
    if t is not None:
        files = [e for p, e in t.by_path.items() if not e.is_dir and id(e) not in (d.rr.not_files if d.rr and d.rr.present else ())]
        n_src_files = len([1 for rel, v in want.items() if v[0] == 'file' and rel not in excluded and rel not in hidden_iso])
        n_links = len([1 for rel, v in want.items() if v[0] == 'link' and rel not in excluded])
        n_iso = len(files) - (1 if 'boot' in tweak else 0)
        symlinks_recorded = len([1 for p, e in t.by_path.items() if not e.is_dir and d.rr and d.rr.present and b'SL' in e.su]) if has_rr else 0
        placeholders = n_links if (has_u and not has_rr) else 0
        too_deep = lvl < 4 and not has_rr and any(rel.count('/') >= 7 for rel in want)
        if too_deep:
            # ISO9660 proper cannot hold directories below level 8; the tool says so and leaves them out (as genisoimage does)
            pass
        elif n_iso - placeholders != n_src_files and not any(len(os.path.basename(rel)) == 0 for rel in want):
            viols.append({'clause': 'every source file appears exactly once in the ISO9660 view', 'cls': 'count %+d' % (n_iso - placeholders - n_src_files),
                          'msg': '%s: %d ISO9660 files for %d source files' % (what, n_iso - placeholders, n_src_files)})
        for p, e in t.by_path.items():
            if p == '/' or (d.rr and d.rr.present and any(part in ('RR_MOVED',) for part in p.split('/'))):
                continue
            ok = iso_dir_legal(e.name, lvl) if e.is_dir else iso_file_legal(e.name, lvl)
            if not ok:
                viols.append({'clause': 'ISO9660 identifiers are legal for the level', 'cls': 'L%d %s' % (lvl, 'dir' if e.is_dir else 'file'), 'msg': '%s: %r' % (what, e.name)})
                break
        for c in d.vol.complaints:
            if 'duplicate' in c:
                viols.append({'clause': 'ISO9660 identifiers are distinct', 'cls': 'duplicate', 'msg': '%s: %s' % (what, c)})
                break
    # --- each requested long-name view extracts to the source tree
    views = []
    if has_rr:
        views.append('rockridge')
    if has_j:
        views.append('joliet')
    if has_u:
        views.append('udf')
    for view in views:
        dest = os.path.join(workdir, 'x_' + view)
        os.makedirs(dest)
        r = run_tool('pycdlib-extract-files', ['-path-type', view, '-extract-to', dest, isofile])
        if r[0] != 0:
            viols.append({'clause': 'pycdlib-extract-files extracts the %s view' % view, 'cls': 'extract ' + (r[1].split(':')[0] if r[0] == 'EXC' else 'exit %s' % r[0]),
                          'msg': '%s: %s %s' % (what, r[0], r[1][-200:])})
            continue
        got = scan(dest)
        exp = {}
        for rel, v in want.items():
            if rel in excluded or any(rel.startswith(x + '/') for x in excluded):
                continue
            if view == 'rockridge' and rel in hidden_iso:
                continue
            if view == 'joliet' and rel in hidden_j:
                continue
            exp[rel] = v
        if 'boot' in tweak:
            got.pop('boot.cat', None)
            got.pop('isolinux/boot.cat', None)
        if view == 'rockridge':
            got = dict((k, v) for k, v in got.items() if k.split('/')[0] not in ('rr_moved', '.rr_moved'))
        diffs = []
        for rel in sorted(set(exp) | set(got)):
            a, b = got.get(rel), exp.get(rel)
            if b is not None and b[0] == 'link' and view == 'joliet':
                if a is None or a == ('file', b''):
                    continue
            if a is None:
                diffs.append('%s missing' % rel)
            elif b is None:
                diffs.append('%s unexpected' % rel)
            elif a[0] != b[0]:
                diffs.append('%s is a %s, expected %s' % (rel, a[0], b[0]))
            elif a != b:
                if 'boot-info-table' in ' '.join(opts) and os.path.basename(rel) in ('boot.img', 'isolinux.bin') and a[1][:8] == b[1][:8] and a[1][64:] == b[1][64:]:
                    continue
                diffs.append('%s content/target differs' % rel)
        if diffs:
            kind = diffs[0].split(' ', 1)[1]
            viols.append({'clause': 'extracting the %s view reproduces the source tree' % view, 'cls': kind[:40], 'msg': '%s: %s' % (what, '; '.join(diffs[:5]))})
    if res is not None:
        res.count('round_trips')
        res.count('extractions', len(views))
    return viols


def tasks(tier):
    cases = []
    for opts in option_sets(tier):
        for tn in TREES:
            if tn in ('boot', 'boot-sub', 'hide'):
                continue
            if tn == 'very-long-names' and '-J' in opts:
                continue      # Joliet cannot hold names of more than 64 characters: the tool refuses such a tree with -J
            if tier == 'quick' and tn in ('many', 'deep', 'empty-dirs') and (opts.count('-J') + opts.count('-udf') != 2 or '-r' not in opts):
                continue
            cases.append((tn, opts, ''))
    for tn, extra, tweak in special_cases():
        for base in (['-iso-level', '1'], ['-iso-level', '3', '-r', '-J'], ['-iso-level', '3', '-R', '-J', '-udf'], ['-iso-level', '4', '-J', '-udf']):
            cases.append((tn, base + extra, tweak))
    n = 64
    return [{'cases': cases[i::n], 'idx': i} for i in range(n)]


def run_task(task):
    res = Result()
    old_umask = os.umask(0o022)
    workdir = os.path.join(SCRATCH, 'w%d_%d' % (os.getpid(), task['idx']))
    cwd = os.getcwd()
    try:
        for tn, opts, tweak in task['cases']:
            case = {'tree': tn, 'opts': opts, 'tweak': tweak, 'size': len(opts), 'shape': '%s %s' % (tn, ' '.join(opts))}
            vs = roundtrip(tn, opts, tweak, workdir, res)
            res.count('evaluations')
            res.add('classes', '%s|%s' % (tn, ' '.join(o for o in opts if not o.isdigit())))
            for v in vs:
                res.violation(v['clause'], v['cls'], v['msg'], case)
            if not vs:
                res.sample(case)
    finally:
        os.chdir(cwd)
        os.umask(old_umask)
        shutil.rmtree(workdir, ignore_errors=True)
    return res


def check_case(case):
    workdir = os.path.join(SCRATCH, 'replay%d' % os.getpid())
    cwd = os.getcwd()
    try:
        return roundtrip(case['tree'], case['opts'], case.get('tweak', ''), workdir)
    finally:
        os.chdir(cwd)
        shutil.rmtree(workdir, ignore_errors=True)


def shrink(case):
    o = case['opts']
    for i in range(2, len(o)):
        if o[i] in ('-J', '-udf', '-scan-for-duplicates', '-R', '-r', '-rrip110', '-rrip112'):
            c = dict(case)
            c['opts'] = o[:i] + o[i + 1:]
            c['shape'] = '%s %s' % (case['tree'], ' '.join(c['opts']))
            yield c


def coverage(tier, r):
    return {
        'evaluations': r.n.get('evaluations', 0),
        'distinct_nontrivial': len(r.sets.get('classes', ())),
        'rule': 'source trees of this module (collisions after mangling, Unicode, long names, empty files/dirs, symlinks incl. dangling and "..", identical contents, depth 9, 45 files) x '
                'the product -iso-level x Rock Ridge option forms x -J x -udf x -scan-for-duplicates (full in thorough; levels 1,3,4 in quick), plus boot and hide/exclude option sets.  '
                'distinct = distinct (tree, option set) pairs',
        'round_trips': r.n.get('round_trips', 0),
        'extractions': r.n.get('extractions', 0),
        'exhaustive': True,
    }
