"""C06 - Lazy metadata is transparent (DESIGN.md section 4, C06): E2 over E1."""
import io
import itertools

from mc import env, explore, master, ops
from mc.driver import Impl, cfg_name
from mc.framework import Result, h8

PROP = 'C06'
LEVEL = 'model_checking'
ASSUMPTIONS = [
    'virtual clock frozen within an execution',
    'deviation kinds: FC force_consistency, Q query-everything (get_record/walk/list_children/open_file_from_iso), W write to a scratch sink; AC = always_consistent object',
    'second clause compares record queries after force_consistency with the same queries on the reopened written image',
]
KINDS = ('FC', 'Q', 'W')

BOUNDS = {
    # (alphabet, profile, cfgs, depth, shard k, max deviations)
    'quick': [('sigma6', 'quick', ops.CFG12, 3, 1, 1), ('sigma1', 'quick', ops.CFG_MULTI[:3], 2, 1, 1)],
    'thorough': [('sigma6', 'thorough', ops.CFG12, 3, 2, 2), ('sigma6', 'quick', ops.CFG12, 4, 2, 1), ('sigma1', 'quick', ops.CFG12, 3, 2, 1)],
}
ALPHA = {'sigma6': ops.sigma6, 'sigma1': ops.sigma1}


def query_everything(impl, model):
    iso = impl.iso
    views = [('iso_path', model.iso)]
    if model.rr:
        views.append(('rr_path', None))
    if model.jol is not None:
        views.append(('joliet_path', model.jol))
    if model.udf is not None:
        views.append(('udf_path', model.udf))
    for key, tree in views:
        try:
            for dirpath, dirs, files in iso.walk(**{key: '/'}):
                list(iso.list_children(**{key: dirpath}))
                iso.get_record(**{key: dirpath})
                for f in files:
                    p = (dirpath if dirpath.endswith('/') else dirpath + '/') + f
                    rec = iso.get_record(**{key: p})
                    rec.extent_location()
        except env.PyCdlibException:
            pass
    for p, n in model.iso.items():
        if n['kind'] == 'file' and n.get('bid') not in (None, 'CAT'):
            try:
                with iso.open_file_from_iso(iso_path=p) as f:
                    f.read(3)
            except env.PyCdlibException:
                pass
            break


def run_schedule(cfg, steps, devs, ac, trailing_fc=False):
    """Execute the history with deviations at the given gaps.  Returns (impl, image)."""
    env.reset()
    impl = Impl(cfg, always_consistent=ac)
    model = explore.model_of(cfg, [])
    bygap = {}
    for gap, kind in devs:
        bygap.setdefault(gap, []).append(kind)

    def do_devs(g):
        for kind in bygap.get(g, ()):
            if kind == 'FC':
                impl.iso.force_consistency()
            elif kind == 'W':
                impl.iso.write_fp(io.BytesIO())
            elif kind == 'Q':
                query_everything(impl, model)
    do_devs(0)
    for i, s in enumerate(steps):
        for op in s:
            impl.apply(op)
            model.apply(op)
        do_devs(i + 1)
    if trailing_fc:
        impl.iso.force_consistency()
    return impl, model


def placements(d, k):
    slots = [(g, kind) for g in range(d + 1) for kind in KINDS]
    for n in range(1, k + 1):
        for combo in itertools.combinations(slots, n):
            yield list(combo)


def record_view(iso, model):
    """(namespace, path) -> (extent, length) through record queries."""
    out = {}
    views = [('iso_path', model.iso)]
    if model.rr and not model.relocation_possible():
        rrt = {}
        for p0, n0 in model.iso.items():
            rrt[model.rr_path_of(p0)] = n0
        views.append(('rr_path', rrt))
    if model.jol is not None:
        views.append(('joliet_path', model.jol))
    if model.udf is not None:
        views.append(('udf_path', model.udf))
    for key, tree in views:
        for p, n in tree.items():
            if p == '/' and key not in ('udf_path', 'rr_path'):
                rec = iso.get_record(**{key: p})
                out[(key, p)] = (rec.extent_location(), rec.get_data_length())
                continue
            try:
                rec = iso.get_record(**{key: p})
            except env.PyCdlibException as e:
                out[(key, p)] = ('ERR', str(e)[:40])
                continue
            if rec is None:
                out[(key, p)] = None
                continue
            ext = rec.extent_location()
            ln = rec.get_data_length()
            if key == 'udf_path':
                ad = [(a.log_block_num, a.extent_length) for a in getattr(rec, 'alloc_descs', [])]
                out[(key, p)] = (ext, ln, tuple(ad))
            else:
                if n['kind'] != 'dir' and ln == 0:
                    ext = 0     # location of an empty file carries no meaning
                if n['kind'] == 'sym':
                    ext = 0
                out[(key, p)] = (ext, ln)
    return out


def check_schedules(cfg, steps, k, res=None, only=None):
    """All deviation placements for one base history.  Returns violations."""
    viols = []
    try:
        base_impl, model = run_schedule(cfg, steps, [], False)
        base = base_impl.write()
    except Exception as e:
        return None     # base history not accepted / not writable: C01's business
    cases = []
    if isinstance(only, str):
        cases = []
    elif only is not None:
        cases = [only]
    else:
        cases.append(([], True))
        for devs in placements(len(steps), k):
            cases.append((devs, False))
        for devs in placements(len(steps), 1):
            cases.append((devs, True))
    for devs, ac in cases:
        case = {'cfg': cfg, 'steps': steps, 'devs': [list(d) for d in devs], 'ac': ac}
        try:
            impl, m2 = run_schedule(cfg, steps, devs, ac)
            img = impl.write()
        except Exception as e:
            t, site = explore.exc_site(e)
            viols.append(({'clause': 'schedule executes', 'cls': '%s@%s' % (t, site),
                           'msg': 'schedule devs=%s ac=%s raised %s: %s' % (devs, ac, t, str(e)[:200])}, case))
            continue
        if res is not None:
            res.count('schedules')
        if img != base:
            j = master.first_diff(img, base)
            viols.append(({'clause': 'final image independent of schedule', 'cls': master.region_name(base, j) if len(img) == len(base) else 'len',
                           'msg': 'devs=%s ac=%s: %s' % (devs, ac, master.describe_diff(base, img))}, case))
    # second clause: with no earlier query, and with one query (which fills the lookup caches) at each gap
    fcq = []
    if only is None:
        fcq = ['FCQ'] + ['FCQ@%d' % g for g in range(1, len(steps))]
    elif isinstance(only, str) and only.startswith('FCQ'):
        fcq = [only]
    for tag in fcq:
        case = {'cfg': cfg, 'steps': steps, 'devs': tag, 'ac': False}
        qdev = [(int(tag[4:]), 'Q')] if '@' in tag else []
        try:
            impl, m2 = run_schedule(cfg, steps, qdev, False, trailing_fc=True)
            live = record_view(impl.iso, m2)
            img = impl.write()
            after = record_view(env.open_image(img), m2)
            if res is not None:
                res.count('fc_query_checks')
            bad = [(k2, live[k2], after.get(k2)) for k2 in sorted(live) if live[k2] != after.get(k2)]
            if bad:
                viols.append(({'clause': 'records after force_consistency match the next image', 'cls': bad[0][0][0],
                               'msg': '; '.join('%s:%s live=%s image=%s' % (a[0], a[1], b, c) for a, b, c in bad[:5])}, case))
        except Exception as e:
            t, site = explore.exc_site(e)
            viols.append(({'clause': 'force_consistency + queries execute', 'cls': '%s@%s' % (t, site),
                           'msg': 'raised %s: %s' % (t, str(e)[:200])}, case))
    return viols


def tasks(tier):
    out = []
    for alpha, profile, cfgs, depth, k, kdev in BOUNDS[tier]:
        for cfg in cfgs:
            fn = lambda m, a=alpha, p=profile: ALPHA[a](m, p)
            shallow, roots = explore.shards(cfg, fn, min(k, depth))
            common = {'cfg': cfg, 'alpha': alpha, 'profile': profile, 'depth': depth, 'kdev': kdev}
            out.append(dict(common, shallow=shallow))
            for r in roots:
                out.append(dict(common, root=r))
    return out


def run_task(task):
    res = Result()
    cfg = task['cfg']
    fn = lambda m: ALPHA[task['alpha']](m, task['profile'])
    res.add('configs', cfg_name(cfg))

    def visit(cfg, steps, model, res):
        impl, info = explore.run_history(cfg, steps)
        if impl is None:
            res.count('refused_or_crashed_histories')
            return False
        vs = check_schedules(cfg, steps, task['kdev'], res)
        if vs is None:
            res.count('unwritable_histories')
            return False
        res.count('executions')
        res.count('transitions', len(explore.flat(steps)))
        res.add('model_states', model.canon())
        res.add('states', h8(model.canon(), repr(steps)))
        for v, case in vs:
            res.violation(v['clause'], v['cls'], v['msg'], case)
        if not vs:
            res.sample({'cfg': cfg, 'steps': steps, 'devs': 'all placements', 'ac': 'both'})
        return not vs
    if 'shallow' in task:
        for steps in task['shallow']:
            visit(cfg, steps, explore.model_of(cfg, steps), res)
    else:
        explore.dfs(cfg, task['root'], task['depth'], fn, visit, res)
    return res


def check_case(case):
    devs = case['devs']
    if isinstance(devs, str):
        if '@' in devs and int(devs[4:]) >= len(case['steps']):
            return []
        vs = check_schedules(case['cfg'], case['steps'], 0, only=devs)
    else:
        vs = check_schedules(case['cfg'], case['steps'], 0, only=([tuple(d) for d in devs], case['ac']))
    return [v for v, c in (vs or [])]


def shrink(case):
    from mc.framework import default_shrink
    devs = case['devs']
    for c in default_shrink(case):
        # removing step i shifts later gaps
        removed = None
        for i in range(len(case['steps'])):
            if c['steps'] == case['steps'][:i] + case['steps'][i + 1:]:
                removed = i
                break
        if isinstance(devs, str) and '@' in devs and removed is not None and removed < int(devs[4:]):
            c = dict(c)
            c['devs'] = 'FCQ@%d' % (int(devs[4:]) - 1)
        if not isinstance(devs, str) and removed is not None:
            c = dict(c)
            c['devs'] = [[g - 1 if g > removed else g, k] for g, k in devs]
        yield c
    if not isinstance(devs, str) and len(devs) > 1:
        for i in range(len(devs)):
            c = dict(case)
            c['devs'] = devs[:i] + devs[i + 1:]
            yield c


def coverage(tier, r):
    return {
        'states': len(r.sets.get('states', ())),
        'transitions': r.n.get('transitions', 0) + r.n.get('schedules', 0),
        'traces_validated_against_impl': r.n.get('schedules', 0) + r.n.get('fc_query_checks', 0),
        'base_histories': r.n.get('executions', 0),
        'bound': [{'alphabet': a, 'configs': len(c), 'depth': d, 'max_deviations': kd, 'always_consistent': 'both'} for a, p, c, d, k, kd in BOUNDS[tier]],
        'exhaustive': True,
        'explanation': 'for every base history up to the depth bound, every placement of at most max_deviations deviations (FC/Q/W at every gap) '
                       'and the always-consistent mode is executed; final bytes must equal the deviation-free schedule',
    }
