"""C01 - Mastering fidelity (DESIGN.md section 4): MASTER-ENUM histories + growth chains with the master.oracle_roundtrip oracle."""
from mc import master, ops, oracles
from mc.props import _std

_std.install(globals(), 'C01', 'model_checking', [master.oracle_roundtrip], _std.default_bounds(ce=True, big=True, big_udf=True),
             ['reference model mc/model.py states the documented meaning of each public call', 'pycdlib reads its own image here (independent readers: C03/C08/C09/C10)'] + ['alphabet sigma1 of mc/ops.py and the depth bounds listed in the evidence'])
