"""C01 - Mastering fidelity (DESIGN.md section 4, C01)."""
from mc import master, ops

PROP = 'C01'
LEVEL = 'model_checking'
ORACLES = [master.oracle_roundtrip]
ASSUMPTIONS = [
    'reference model mc/model.py states the documented meaning of each public call',
    'pycdlib reads its own image (independent readers are C03/C08/C09/C10)',
    'names/contents restricted to the alphabet of mc/ops.py:sigma1',
]

BOUNDS = {
    'quick': [('quick', ops.CFG12, 2, 1), ('macro', ops.CFG12[3:4] + ops.CFG12[9:11], 1, 1)],
    'thorough': [('quick', ops.CFG12, 3, 2), ('macro', ops.CFG12, 2, 1), ('quick', ops.CFG256, 2, 1)],
}


def tasks(tier):
    out = []
    for profile, cfgs, depth, k in BOUNDS[tier]:
        out += master.make_tasks(cfgs, profile, depth, k)
    return out


def run_task(task):
    return master.run_task(task, ORACLES)


def check_case(case):
    status, viols, info = master.evaluate(case, ORACLES)
    return viols


def coverage(tier, r):
    return {
        'states': len(r.sets.get('states', ())),
        'transitions': r.n.get('transitions', 0),
        'traces_validated_against_impl': r.n.get('executions', 0),
        'bound': [{'profile': p, 'configs': len(c), 'depth': d} for p, c, d, k in BOUNDS[tier]],
        'exhaustive': True,
        'explanation': 'every history over sigma1 up to the depth bound, per configuration, executed on the real implementation; '
                       'states = distinct (model state, image digest) pairs',
    }
