"""Boilerplate for MASTER-ENUM based property modules."""
from mc import master, ops


def install(ns, prop, level, oracles, bounds, assumptions, extra_tasks=None, extra_run=None, alphabets=None):
    """
    bounds: {'quick': [spec...], 'thorough': [spec...]} with spec =
      ('dfs', profile, cfgs, depth, shard_k) | ('chains', cfgs) | ('alpha', name, cfgs, depth, shard_k)
    """
    ns['PROP'] = prop
    ns['LEVEL'] = level
    ns['ORACLES'] = oracles
    ns['ASSUMPTIONS'] = assumptions
    ns['BOUNDS'] = bounds
    alphabets = dict(ALPHABETS, **(alphabets or {}))

    def tasks(tier):
        out = []
        for spec in bounds[tier]:
            if spec[0] == 'dfs':
                _, profile, cfgs, depth, k = spec
                out += master.make_tasks(cfgs, profile, depth, k)
            elif spec[0] == 'chains':
                out += master.make_chain_tasks(spec[1], tier)
            elif spec[0] == 'alpha':
                _, name, cfgs, depth, k = spec
                out += master.make_alpha_tasks(cfgs, name, alphabets[name], depth, k)
            elif spec[0] == 'reopen':
                _, cfgs, depth_after = spec
                out += master.make_reopen_tasks(cfgs, depth_after)
            elif spec[0] == 'big':
                out += [{'big': name} for name in spec[1]]
        if extra_tasks:
            out += extra_tasks(tier)
        return out

    def run_big(name):
        from mc import bigfile
        byname = dict((c[0], c) for c in bigfile.cases())
        return [v for v in bigfile.run_case(*byname[name]) if v['prop'] == prop]

    def run_task(task):
        if task.get('big'):
            from mc.framework import Result
            res = Result()
            res.count('large_file_histories')
            res.count('executions')
            for v in run_big(task['big']):
                res.violation(v['clause'], v['cls'], v['msg'], {'big': task['big']})
            return res
        if extra_run and task.get('extra'):
            return extra_run(task)
        if task.get('alpha'):
            return master.run_task(task, oracles, alphabet=alphabets[task['alpha']])
        return master.run_task(task, oracles)

    def check_case(case):
        if case.get('big'):
            return run_big(case['big'])
        if extra_run and case.get('extra'):
            return ns['check_extra'](case)
        status, viols, info = master.evaluate(case, oracles)
        if status == 'crash':
            c, k, m = master.crash_violation(info)
            viols = list(viols) + [{'clause': c, 'cls': k, 'msg': m}]
        return viols

    def coverage(tier, r):
        def d(spec):
            if spec[0] == 'dfs':
                return {'enumeration': 'all histories over sigma1/' + spec[1], 'configs': len(spec[2]), 'depth': spec[3]}
            if spec[0] == 'alpha':
                return {'enumeration': 'all histories over ' + spec[1], 'configs': len(spec[2]), 'depth': spec[3]}
            if spec[0] == 'big':
                return {'enumeration': 'fixed list of histories with files of 0xfffff800-1 .. 2*0xfffff800+5 bytes on virtual devices (mc/bigfile.py; gen2-/gen3- cases reopen the virtual image, edit it, and re-master the result once more); a list, not an alphabet',
                        'cases': list(spec[1])}
            if spec[0] == 'reopen':
                return {'enumeration': 'base images of mc/ops.py:reopen_bases . REOPEN . all histories over sigma1/reopen (further REOPENs allowed)',
                        'configs': len(spec[1]), 'depth_after_reopen': spec[2]}
            return {'enumeration': 'every prefix of the growth/shrink chains of mc/ops.py:chains_for', 'configs': len(spec[1])}
        cov = {
            'states': len(r.sets.get('states', ())),
            'transitions': r.n.get('transitions', 0),
            'traces_validated_against_impl': r.n.get('executions', 0),
            'bound': [d(s) for s in bounds[tier]],
            'exhaustive': True,
            'explanation': 'every operation sequence within the stated bounds is executed on the real implementation and judged by the oracle(s) '
                           + ', '.join(o.__name__ for o in oracles) + '; states = distinct (model state, image digest) pairs',
        }
        if 'coverage_extra' in ns:
            cov.update(ns['coverage_extra'](tier, r))
        return cov

    ns['tasks'] = tasks
    ns['run_task'] = run_task
    ns['check_case'] = check_case
    ns['coverage'] = coverage


ALPHABETS = {
    'sigma_readd': lambda m: ops.sigma_readd(m, 'quick'),
    'sigma_readd_big': lambda m: ops.sigma_readd(m, 'thorough'),
    'sigma_readd_q': lambda m: ops.sigma_readd_q(m, 'quick'),
    'sigma_ce_reopen': lambda m: ops.sigma_ce_reopen(m, 'quick'),
    'sigma_ce': lambda m: ops.sigma_ce(m, 'quick'),
    'sigma_ce_big': lambda m: ops.sigma_ce(m, 'thorough'),
}


BIG_ISO = ['iso-lim-1', 'iso-lim', 'iso-lim+1', 'iso-4g+2049', 'iso-2lim+5', 'add-rm-add', 'link', 'level1-refused']
BIG_GEN2 = ['gen2-iso-lim+1', 'gen2-iso-4g+2049', 'gen2-joliet-rm-big', 'gen2-rr-link', 'gen3-iso-2lim+5', 'gen2-udf-lim-1']
BIG_UDF = ['all-lim+1', 'rr-udf-lim+1', 'all-4g+2049', 'rr-udf-4g+2049', 'udf-only-4g', 'udf-only-2lim+5', 'udf-only-link']


def default_bounds(quick_depth=2, thorough_depth=3, ce=False, big=False, big_udf=False):
    b = {
        'quick': [('dfs', 'quick', ops.CFG12, quick_depth, 1), ('dfs', 'quick', [ops.CFG12[7], ops.CFG12[10]], 3, 2),
                  ('dfs', 'macro', ops.CFG12[3:4] + ops.CFG12[9:11], 1, 1),
                  ('chains', [ops.CFG12[1], ops.CFG12[3], ops.CFG12[10]]),
                  ('reopen', [ops.CFG12[10]], 1)],
        'thorough': [('dfs', 'quick', ops.CFG12, thorough_depth, 2), ('dfs', 'macro', ops.CFG12, 2, 1),
                     ('dfs', 'quick', ops.CFG256, 2, 1), ('chains', ops.CFG12), ('reopen', ops.CFG_MULTI, 2)],
    }
    b['quick'].append(('alpha', 'sigma_readd', [ops.CFG12[7], ops.CFG12[9]], 4, 2))
    b['thorough'].append(('alpha', 'sigma_readd', ops.CFG12, 5, 2))
    b['thorough'].append(('alpha', 'sigma_readd_big', ops.CFG_MULTI[1:4], 5, 2))
    if big:
        b['quick'].append(('big', ['iso-lim+1']))
    if big or big_udf:
        b['thorough'].append(('big', (BIG_ISO if big else []) + (BIG_UDF if big_udf else [])))
    if ce:
        b['quick'].append(('alpha', 'sigma_ce', ops.CFG_RR[:2], 5, 2))
        b['thorough'].append(('alpha', 'sigma_ce', ops.CFG_RR, 6, 2))
        b['thorough'].append(('alpha', 'sigma_ce_big', ops.CFG_RR[:1], 5, 2))
    return b
