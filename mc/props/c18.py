"""C18 - Derived names are always legal: mangling is total and level-correct (DESIGN.md section 4, C18)."""
import importlib.machinery
import importlib.util
import io
import itertools
import os

from mc import env
from mc.framework import Result
from mc.model import iso_dir_legal, iso_file_legal

def _stable(t):
    """A digest that does not depend on the per-process hash seed (evidence counts must be reproducible)."""
    import zlib
    return zlib.crc32(repr(t).encode('utf-8', 'surrogatepass'))


PROP = 'C18'
LEVEL = 'exploration'
ASSUMPTIONS = [
    'legality predicate mc/model.py:iso_file_legal / iso_dir_legal written from the documented rules (d-characters at levels 1-3, 8.3 at level 1, directory length 8/207, one semicolon, version 1..32767)',
    'names containing "/" or equal to "." / ".." are path syntax, not names, and are excluded',
    'acceptance is exercised through the Rock Ridge facade (the only facade that derives ISO9660 identifiers)',
]

ALPHA = ['a', 'A', 'z', '1', '_', '.', '-', ' ', 'ß', 'ŉ', 'ﬁ', 'ı', 'İ', 'é', '中', '𝒜', '\x01', '\n', '\x7f', '́', ';', '٣', '２']   # incl. two non-ASCII decimal digits


def family_strings():
    """Length families 6..12 and 28..34 built from each character class with a length-changing character at each cut position."""
    out = []
    for base in ('a', 'A', '1', 'é', '中'):
        for n in list(range(6, 13)) + list(range(28, 35)):
            out.append(base * n)
            for special in ('ß', 'ŉ', 'ﬁ', '.', 'İ'):
                for pos in sorted(set([0, 1, 7, 8, 9, n - 4, n - 1])):
                    if 0 <= pos < n:
                        s = base * pos + special + base * (n - pos - 1)
                        out.append(s)
                        out.append(s[:-4] + '.' + s[-3:])
    return out


def strings(maxlen):
    for n in range(1, maxlen + 1):
        for t in itertools.product(ALPHA, repeat=n):
            yield ''.join(t)


def excluded(s):
    return '/' in s or s in ('.', '..')


def legal_input(s, level, is_dir):
    """Input already legal for the level (without version)?"""
    if ';' in s:
        return False
    try:
        s.encode('ascii')
    except UnicodeEncodeError:
        return level == 4 and False
    if is_dir:
        return iso_dir_legal(s, level)
    if '.' not in s:
        return False       # a file identifier needs the separator
    return iso_file_legal(s, level)


def check_pure(s, res):
    from pycdlib import utils, facade
    out = []
    if excluded(s):
        return out
    for level in (1, 2, 3, 4):
        for is_dir in (False, True):
            res.count('evaluations')
            kind = 'dir' if is_dir else 'file'
            try:
                if is_dir:
                    r = utils.mangle_dir_for_iso9660(s, level)
                    ident = r
                else:
                    b, e = utils.mangle_file_for_iso9660(s, level)
                    ident = '.'.join([b, e])
                rr = facade.iso_path_to_rr_name('/' + s, level, is_dir) if not excluded(s) and s else None
                utils.truncate_basename(s, level, is_dir)
            except Exception as ex:
                out.append({'clause': 'mangling raises nothing', 'cls': '%s L%d %s' % (kind, level, type(ex).__name__),
                            'msg': '%r level %d %s: %s: %s' % (s, level, kind, type(ex).__name__, ex)})
                continue
            ok = iso_dir_legal(ident, level) if is_dir else iso_file_legal(ident, level)
            if ok and len(ident.encode('utf-8')) > (207 if is_dir else 221):
                ok = False
            if not ok:
                why = 'length' if (level == 1 and len(ident.split(';')[0].replace('.', '')) > 8) else 'characters'
                out.append({'clause': 'derived identifier is legal for the level', 'cls': '%s L%d %s' % (kind, level, why),
                            'msg': '%r level %d %s -> %r is not legal' % (s, level, kind, ident)})
            elif legal_input(s, 1, is_dir) and ident not in ((s,) if is_dir else (s + ';1', s)):
                out.append({'clause': 'an already legal name is returned unchanged (apart from the version)',
                            'cls': '%s L%d %s' % (kind, level, 'trailing dot (empty extension)' if s.endswith('.') and s.count('.') == 1 else 'other'),
                            'msg': '%r level %d %s -> %r' % (s, level, kind, ident)})
            res.add('results', _stable((ident, level, is_dir)) & 0xfffff)
    return out


def check_accept(s, res):
    """(c) a fresh image accepts the derived name through the Rock Ridge facade, and the original name reaches that entry."""
    out = []
    if excluded(s) or not s:
        return out
    try:
        s.encode('utf-8')
    except UnicodeEncodeError:
        return out
    for level in (1, 2, 3, 4):
        for is_dir in (False, True):
            res.count('acceptance_evaluations')
            kind = 'dir' if is_dir else 'file'
            env.reset()
            iso = env.PyCdlib()
            iso.new(interchange_level=level, rock_ridge='1.09')
            f = iso.get_rock_ridge_facade()
            try:
                if is_dir:
                    f.add_directory('/' + s, 0o040555)
                else:
                    f.add_fp(io.BytesIO(b'xy'), 2, '/' + s, 0o100444)
                    f.add_fp(io.BytesIO(b'other'), 5, '/zzother', 0o100444)
            except Exception as ex:
                out.append({'clause': 'the library accepts the identifier it derived', 'cls': '%s L%d %s' % (kind, level, type(ex).__name__),
                            'msg': 'facade add of %r (level %d %s) raised %s: %s' % (s, level, kind, type(ex).__name__, str(ex)[:100])})
                continue
            try:
                rec = f.get_record('/' + s)
                if rec.rock_ridge.name().decode('utf-8') != s or rec.is_dir() != is_dir:
                    out.append({'clause': 'the original name addresses that entry and no other', 'cls': '%s L%d wrong entry' % (kind, level),
                                'msg': '%r resolves to an entry named %r' % (s, rec.rock_ridge.name())})
                if not is_dir:
                    o = io.BytesIO()
                    f.get_file_from_iso_fp(o, '/' + s)
                    if o.getvalue() != b'xy':
                        out.append({'clause': 'the original name addresses that entry and no other', 'cls': '%s L%d wrong content' % (kind, level),
                                    'msg': '%r reads %r' % (s, o.getvalue())})
            except Exception as ex:
                out.append({'clause': 'the original name addresses that entry and no other', 'cls': '%s L%d lookup %s' % (kind, level, type(ex).__name__),
                            'msg': 'lookup of %r (level %d %s) raised %s: %s' % (s, level, kind, type(ex).__name__, str(ex)[:100])})
    return out


_TOOL = None


def tool():
    global _TOOL
    if _TOOL is None:
        path = os.path.join(env.REPO, 'tools', 'pycdlib-genisoimage')
        loader = importlib.machinery.SourceFileLoader('pycdlib_genisoimage_tool', path)
        spec = importlib.util.spec_from_loader('pycdlib_genisoimage_tool', loader)
        mod = importlib.util.module_from_spec(spec)
        loader.exec_module(mod)
        _TOOL = mod
    return _TOOL


def check_collisions(names, res):
    """build_iso_path: names that mangle to the same identifier get legal, distinct identifiers."""
    out = []
    t = tool()
    for level in (1, 2, 3):
        for is_dir in (False, True):
            res.count('collision_evaluations')
            parent = t.DirLevel('/', '/', '/') if hasattr(t, 'DirLevel') else None
            got = []
            try:
                for n in names:
                    got.append(t.build_iso_path(parent, n, level, is_dir))
            except Exception as ex:
                out.append({'clause': 'collision numbering raises nothing', 'cls': 'L%d %s' % (level, type(ex).__name__), 'msg': '%r: %s' % (names, ex)})
                continue
            idents = [g[1:] if g is not None else None for g in got]
            if None in idents:
                continue
            if len(set(idents)) != len(idents):
                out.append({'clause': 'collision numbering yields distinct identifiers', 'cls': 'L%d duplicate' % level, 'msg': '%r -> %r' % (names, idents)})
            for i in idents:
                ok = iso_dir_legal(i, level) if is_dir else iso_file_legal(i, level)
                if not ok:
                    out.append({'clause': 'collision numbering yields legal identifiers', 'cls': 'L%d %s' % (level, 'dir' if is_dir else 'file'),
                                'msg': '%r (level %d) -> %r: %r is not legal' % (names, level, idents, i)})
                    break
    return out


def collision_sets():
    base = ['ab.txt', 'AB.txt', 'ab.TXT', 'a', 'A', 'abcdefghij', 'abcdefghiJ', 'ABCDEFGHIx', 'abcdefgh.txt', 'abcdefgh1.txt', 'abcde', 'ABCDE', 'ab cd', 'ab_cd', 'ab-cd',
            'x.y', 'X.Y', 'x.Y', 'long name with spaces.text', 'long name with spaces.texT', 'é', 'É', 'ß', 'ss', 'SS']
    for r in (2, 3):
        for c in itertools.combinations(base, r):
            yield list(c)


BOUNDS = {'quick': (4, 3), 'thorough': (5, 4)}      # (pure string length, acceptance string length)
FACADE_DEPTH = {'quick': 4, 'thorough': 5}

# ----------------------------------------------------------------------------- (d) facade histories
# One Rock Ridge facade object is kept for a whole history; entries are also created and removed "behind its back"
# through the PyCdlib object, re-using ISO9660 names under other Rock Ridge names.  The facade must address the entry its
# Rock Ridge path names every time (never a different one because of a name / path the library derived earlier).

F_A = b'facade-a'
F_B = b'facade-bb'
FACADE_OPS = {
    'Fmk_docs': [('F', 'add_directory', '/docs')],
    'Fmk_archive': [('F', 'add_directory', '/archive')],
    'Fadd_docs_a': [('F', 'add_fp', '/docs/a.txt', F_A)],
    'Fadd_archive_a': [('F', 'add_fp', '/archive/a.txt', F_B)],
    'Frm_docs_a': [('F', 'rm_file', '/docs/a.txt')],
    'Frm_docs': [('F', 'rm_directory', '/docs')],
    'Prm_DOCS': [('P', 'rm_directory', '/DOCS')],
    'Pmk_DOCS_as_archive': [('P', 'add_directory', '/DOCS', 'archive')],
    'Pmk_DOCS2_as_docs': [('P', 'add_directory', '/DOCS2', 'docs')],
    # macro steps (keep the interesting histories within the depth bound)
    'M_docs_with_file': [('F', 'add_directory', '/docs'), ('F', 'add_fp', '/docs/a.txt', F_A)],
    'M_empty_and_drop_DOCS': [('F', 'rm_file', '/docs/a.txt'), ('P', 'rm_directory', '/DOCS')],
    'M_swap': [('P', 'add_directory', '/DOCS', 'archive'), ('P', 'add_directory', '/DOCS2', 'docs')],
}


def run_facade_history(names):
    """Returns violations for one history (list of FACADE_OPS keys)."""
    import io as _io
    env.reset()
    iso = env.PyCdlib()
    iso.new(interchange_level=3, rock_ridge='1.09')
    f = iso.get_rock_ridge_facade()
    keep = []
    model = {'/': {'kind': 'dir', 'iso': '/'}}      # rr path -> entry

    def parent(p):
        return p.rsplit('/', 1)[0] or '/'

    def children(p):
        pre = p.rstrip('/') + '/'
        return [q for q in model if q != p and q.startswith(pre)]
    viols = []
    for name in names:
        for op in FACADE_OPS[name]:
            who, call = op[0], op[1]
            # what the reference model says
            if who == 'F':
                rrp = op[2]
                if call in ('add_directory', 'add_fp'):
                    legal = rrp not in model and parent(rrp) in model and model[parent(rrp)]['kind'] == 'dir'
                elif call == 'rm_file':
                    legal = rrp in model and model[rrp]['kind'] == 'file'
                else:
                    legal = rrp in model and model[rrp]['kind'] == 'dir' and not children(rrp)
            else:
                isop = op[2]
                byiso = [q for q, e in model.items() if e['iso'] == isop]
                if call == 'add_directory':
                    legal = not byiso and ('/' + op[3]) not in model
                else:
                    legal = bool(byiso) and model[byiso[0]]['kind'] == 'dir' and not children(byiso[0])
            try:
                if who == 'F':
                    if call == 'add_directory':
                        f.add_directory(op[2], 0o040555)
                    elif call == 'add_fp':
                        fp = _io.BytesIO(op[3])
                        keep.append(fp)
                        f.add_fp(fp, len(op[3]), op[2], 0o100444)
                    elif call == 'rm_file':
                        f.rm_file(op[2])
                    else:
                        f.rm_directory(op[2])
                else:
                    if call == 'add_directory':
                        iso.add_directory(op[2], rr_name=op[3])
                    else:
                        iso.rm_directory(op[2])
                accepted = True
            except env.InvalidInput:
                accepted = False
            except Exception as ex:
                return [{'clause': 'facade calls are accepted or refused with the invalid-input error', 'cls': '%s %s' % (call, type(ex).__name__),
                         'msg': '%s in %s raised %s: %s' % (op[:3], names, type(ex).__name__, str(ex)[:120])}]
            if accepted and not legal:
                return [{'clause': 'the facade addresses the entry its Rock Ridge path names', 'cls': 'accepted %s %s' % (who, call),
                         'msg': '%s accepted in %s although the reference model refuses it (model: %s)' % (op[:3], names, sorted(model))}]
            if not accepted:
                continue      # an unexpected refusal is not a clause of this property (ISO9660 name taken, ...)
            if who == 'F':
                rrp = op[2]
                if call in ('add_directory', 'add_fp'):
                    # the ISO9660 name is the one the library derived: read it back (the oracle is about the Rock Ridge tree)
                    try:
                        rec = iso.get_record(rr_path=rrp)
                        isop = iso.full_path_from_dirrecord(rec)
                    except env.PyCdlibException:
                        isop = '?' + rrp
                    model[rrp] = {'kind': 'dir' if call == 'add_directory' else 'file', 'iso': isop, 'data': op[3] if call == 'add_fp' else None}
                else:
                    del model[rrp]
            else:
                if call == 'add_directory':
                    model['/' + op[3]] = {'kind': 'dir', 'iso': op[2], 'data': None}
                else:
                    del model[byiso[0]]
    # observe: the editing object and the reopened image show exactly the model's Rock Ridge tree
    out = _io.BytesIO()
    try:
        iso.write_fp(out)
    except Exception as ex:
        return [{'clause': 'the image can be written after facade edits', 'cls': type(ex).__name__, 'msg': '%s: %s' % (names, str(ex)[:150])}]
    iso2 = env.PyCdlib()
    iso2.open_fp(_io.BytesIO(out.getvalue()))
    for label, obj in (('editing object', iso), ('reopened image', iso2)):
        fac = obj.get_rock_ridge_facade() if obj is iso2 else f
        got = {}
        try:
            for dp, ds, fs in fac.walk('/'):
                got[dp] = ('dir', None)
                for fn in fs:
                    p = (dp.rstrip('/') + '/' + fn)
                    o = _io.BytesIO()
                    fac.get_file_from_iso_fp(o, p)
                    got[p] = ('file', o.getvalue())
        except Exception as ex:
            return [{'clause': 'the facade can walk and read what it created', 'cls': '%s %s' % (label, type(ex).__name__), 'msg': '%s: %s' % (names, str(ex)[:150])}]
        want = dict((p, (e['kind'], e.get('data'))) for p, e in model.items())
        if got != want:
            diff = sorted(set(got.items()) ^ set(want.items()))[:4]
            return [{'clause': 'the facade addresses the entry its Rock Ridge path names', 'cls': '%s tree differs' % label,
                     'msg': '%s: %s' % (names, diff)}]
    return viols


def tasks(tier):
    pure, acc = BOUNDS[tier]
    out = []
    for first in ALPHA:
        out.append({'kind': 'pure', 'first': first, 'maxlen': pure})
        out.append({'kind': 'accept', 'first': first, 'maxlen': acc})
    fam = family_strings()
    for i in range(16):
        out.append({'kind': 'family', 'strings': fam[i::16]})
    cs = list(collision_sets())
    for i in range(8):
        out.append({'kind': 'collide', 'sets': cs[i::8]})
    for a in sorted(FACADE_OPS):
        for b in sorted(FACADE_OPS):
            out.append({'kind': 'facade', 'prefix': [a, b], 'depth': FACADE_DEPTH[tier]})
    return out


def run_task(task):
    res = Result()

    def rec(vs, s):
        for v in vs:
            res.violation(v['clause'], v['cls'], v['msg'], {'kind': task['kind'], 's': s, 'size': len(s) if isinstance(s, str) else len(s), 'shape': ''})
    if task['kind'] in ('pure', 'accept'):
        f = check_pure if task['kind'] == 'pure' else check_accept
        for n in range(1, task['maxlen'] + 1):
            for t in itertools.product(ALPHA, repeat=n - 1):
                s = task['first'] + ''.join(t)
                rec(f(s, res), s)
        res.sample({'kind': task['kind'], 'first': task['first'], 'maxlen': task['maxlen']})
    elif task['kind'] == 'facade':
        keys = sorted(FACADE_OPS)
        for n in range(0, task['depth'] - 1):
            for rest in itertools.product(keys, repeat=n):
                hist = task['prefix'] + list(rest)
                if n == 0 and task['prefix'][1] == keys[0]:
                    rec(run_facade_history(task['prefix'][:1]), task['prefix'][:1])     # depth-1 histories, once
                    res.count('facade_histories')
                rec(run_facade_history(hist), hist)
                res.count('facade_histories')
    elif task['kind'] == 'family':
        for s in task['strings']:
            rec(check_pure(s, res), s)
            rec(check_accept(s, res), s)
    else:
        for names in task['sets']:
            rec(check_collisions(names, res), names)
    return res


def check_case(case):
    r = Result()
    if case['kind'] == 'facade':
        return run_facade_history(case['s'])
    if case['kind'] == 'collide':
        return check_collisions(case['s'], r)
    if case['kind'] == 'pure':
        return check_pure(case['s'], r)
    if case['kind'] == 'accept':
        return check_accept(case['s'], r)
    return check_pure(case['s'], r) + check_accept(case['s'], r)


def shrink(case):
    s = case['s']
    if isinstance(s, str):
        for i in range(len(s)):
            if len(s) > 1:
                c = dict(case)
                c['s'] = s[:i] + s[i + 1:]
                c['size'] = len(c['s'])
                yield c
    else:
        for i in range(len(s)):
            if len(s) > 2:
                c = dict(case)
                c['s'] = s[:i] + s[i + 1:]
                yield c


def coverage(tier, r):
    pure, acc = BOUNDS[tier]
    return {
        'evaluations': r.n.get('evaluations', 0) + r.n.get('acceptance_evaluations', 0) + r.n.get('collision_evaluations', 0),
        'distinct_nontrivial': len(r.sets.get('results', ())),
        'rule': 'every string of length 1..%d over a %d-character alphabet (case-mapping that changes length, dots, control, non-BMP, combining, semicolon) '
                'x levels 1-4 x file/dir through the manglers; acceptance through the Rock Ridge facade for length 1..%d plus the length families; '
                'collision numbering for every 2- and 3-subset of a list of colliding names.  distinct = distinct (identifier, level, kind) results' % (pure, len(ALPHA), acc),
        'exhaustive': True,
        'acceptance_evaluations': r.n.get('acceptance_evaluations', 0),
        'collision_evaluations': r.n.get('collision_evaluations', 0),
        'facade_histories': r.n.get('facade_histories', 0),
        'facade_rule': 'every history of at most %d steps over %d facade / direct operations (one Rock Ridge facade object kept for the history)' % (FACADE_DEPTH[tier], len(FACADE_OPS)),
    }
