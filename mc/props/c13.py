"""C13 - Namespace rules: unique names, legal identifiers, refused otherwise (DESIGN.md section 4, C13)."""
import io
import itertools

from mc import env, explore, ops
from mc.driver import Impl, cfg_name, cfg_kwargs
from mc.framework import Result
from mc.model import Model, ModelRefuse, iso_dir_legal, iso_file_legal
from mc.readers import r119, r167
from mc import decode as dec

def _stable(t):
    """A digest that does not depend on the per-process hash seed (evidence counts must be reproducible)."""
    import zlib
    return zlib.crc32(repr(t).encode('utf-8', 'surrogatepass'))


PROP = 'C13'
LEVEL = 'exploration'
ASSUMPTIONS = [
    'legality predicate written from the documented rules: d-characters at levels 1-3, 8.3 at level 1, directory names <= 8 / 207, one semicolon and a version 1..32767 '
    '(an identifier without version is documented as accepted), depth <= 7 below the root without Rock Ridge / level 4, Joliet <= 64 UCS-2 units, '
    'UDF identifier <= 255 bytes including the compression id, directory record <= 255 bytes',
    'only the direction "accepted => legal, unique, fits" is flagged; legal-but-refused is counted',
]
SIGMA_N = ['A', 'a', '1', '_', '.', ';', ' ', '-', 'é', '\x01']


# ----------------------------------------------------------------------------- legality

def record_fits(ident_bytes, cfg, is_dir):
    n = len(ident_bytes)
    ln = 33 + n + (1 if n % 2 == 0 else 0)
    if cfg.get('xa'):
        ln += 14
    return ln <= 255 and n <= 255


def legal_iso(name, cfg, is_dir):
    lvl = cfg['level']
    try:
        b = name.encode('utf-8')
    except UnicodeEncodeError:
        return False
    if not name or name in ('\x00', '\x01'):
        return False
    ok = iso_dir_legal(name, lvl) if is_dir else iso_file_legal(name, lvl)
    if not ok:
        return False
    if cfg.get('rr'):
        # the record must also hold the 28-byte CE entry; everything else can be continued
        n = len(b)
        return 33 + n + (1 if n % 2 == 0 else 0) + (14 if cfg.get('xa') else 0) + 28 <= 254
    return record_fits(b, cfg, is_dir)


def legal_joliet(name):
    try:
        u = name.encode('utf-16_be')
    except UnicodeEncodeError:
        return False
    return 0 < len(u) // 2 <= 64 and name not in ('\x00', '\x01')


def legal_udf(name):
    if not name:
        return False
    try:
        b = name.encode('latin-1')
    except UnicodeEncodeError:
        b = name.encode('utf-16_be')
    return len(b) + 1 <= 255


# ----------------------------------------------------------------------------- single edits

def attempt(cfg, ns, name, is_dir, depth_prefix=0):
    """One edit on a fresh image.  Returns list of violations and a tag."""
    env.reset()
    impl = Impl(cfg)
    iso = impl.iso
    parent = ''
    rr = cfg.get('rr')
    try:
        for i in range(depth_prefix):
            parent += '/P%d' % i
            kw = {'iso_path': parent} if ns == 'iso' else ({'joliet_path': parent} if ns == 'joliet' else {'udf_path': parent})
            if ns == 'iso' and rr:
                kw['rr_name'] = 'p%d' % i
            iso.add_directory(**kw)
    except env.InvalidInput:
        return [], 'prefix refused'
    path = parent + '/' + name
    kw = {}
    if ns == 'iso':
        kw['iso_path'] = path
        if rr:
            kw['rr_name'] = 'n'
    elif ns == 'joliet':
        kw['joliet_path'] = path
    else:
        kw['udf_path'] = path
    what = '%s %s %r (%s%s)' % (ns, 'dir' if is_dir else 'file', name[:40] + ('...' if len(name) > 40 else ''), cfg_name(cfg), ' depth %d' % (depth_prefix + 1) if depth_prefix else '')
    try:
        if is_dir:
            iso.add_directory(**kw)
        else:
            fp = io.BytesIO(b'x')
            impl.keep.append(fp)
            iso.add_fp(fp, 1, **kw)
    except env.InvalidInput:
        return [], 'refused'
    except Exception as e:
        t, site = explore.exc_site(e)
        return [{'clause': 'an illegal edit is refused with the invalid-input error', 'cls': '%s %s: %s@%s' % (ns, 'dir' if is_dir else 'file', t, site),
                 'msg': '%s raised %s: %s' % (what, t, str(e)[:120])}], 'crash'
    # accepted
    out = []
    if '/' in name:
        legal = True   # not a single component: judged by its components elsewhere
    elif ns == 'iso':
        legal = legal_iso(name, cfg, is_dir)
        if legal and not rr and cfg['level'] < 4 and depth_prefix + 1 > 7 + (0 if is_dir else 0):
            legal = False
    elif ns == 'joliet':
        legal = legal_joliet(name)
    else:
        legal = legal_udf(name)
    if not legal:
        out.append({'clause': 'an accepted identifier obeys the documented naming rules', 'cls': '%s %s L%d accepted illegal' % (ns, 'dir' if is_dir else 'file', cfg['level']),
                    'msg': '%s was accepted' % what})
    try:
        img = impl.write()
    except Exception as e:
        t, site = explore.exc_site(e)
        out.append({'clause': 'an accepted edit does not fail later during write', 'cls': '%s %s: write %s@%s' % (ns, 'dir' if is_dir else 'file', t, site),
                    'msg': '%s was accepted but write_fp raised %s: %s' % (what, t, str(e)[:120])})
        return out, 'accepted'
    out += image_rules(img, what)
    return out, 'accepted'


def image_rules(img, what):
    """No directory of the written image holds two entries with the same identifier (independent decoders)."""
    out = []
    vol = r119.decode(img)
    for c in vol.complaints:
        if 'duplicate' in c or 'exceeds record length' in c or 'straddles' in c:
            out.append({'clause': 'no directory holds two entries with the same identifier', 'cls': 'image: ' + c.split(':')[0][:30] + ' duplicate/overflow',
                        'msg': '%s: %s' % (what, c)})
            break
    u = r167.decode(img)
    for c in u.complaints:
        if 'duplicate' in c:
            out.append({'clause': 'no directory holds two entries with the same identifier', 'cls': 'image: udf duplicate', 'msg': '%s: %s' % (what, c)})
            break
    return out


CFG_ISO = {1: ops.mk(1), 2: ops.mk(2), 3: ops.mk(3), 4: ops.mk(4)}
CFG_J = ops.mk(3, joliet=3)
CFG_U = ops.mk(3, udf=True)
CFG_RR = ops.mk(1, rr='1.09')
CFG_XA = ops.mk(3, xa=True)


def boundary_cases():
    out = []
    for lvl in (1, 2, 3, 4):
        cfg = CFG_ISO[lvl]
        for nl in (7, 8, 9):
            for el in (0, 3, 4):
                for ver in ('', ';1'):
                    out.append((cfg, 'iso', 'N' * nl + ('.' + 'E' * el if el else '.') + ver, False, 0))
        for dl in (8, 9, 207, 208, 221, 222, 223, 255, 256):
            out.append((cfg, 'iso', 'D' * dl, True, 0))
        for fl in range(215, 262, 1):
            out.append((cfg, 'iso', 'F' * (fl - 3) + '.;1', False, 0))
        for ver in (';0', ';1', ';32767', ';32768', ';99999', ';', ';A', ';1;1', ';-1', ';1 ', ';01'):
            out.append((cfg, 'iso', 'V.' + ver, False, 0))
        for depth in (6, 7, 8, 9):
            out.append((cfg, 'iso', 'DEEP', True, depth - 1))
            out.append((cfg, 'iso', 'DEEP.;1', False, depth - 1))
    for rrcfg in (ops.mk(3, rr='1.09'), ops.mk(3, rr='1.12', xa=True)):
        for nl in range(170, 226, 1):
            out.append((rrcfg, 'iso', 'R' * nl, True, 0))
            out.append((rrcfg, 'iso', 'R' * (nl - 3) + '.;1', False, 0))
    for nl in (200, 221, 222, 255):
        out.append((CFG_RR, 'iso', 'R' * 8, False, 0))
        out.append((CFG_XA, 'iso', 'X' * nl, True, 0))
        out.append((CFG_XA, 'iso', 'X' * (nl - 3) + '.;1', False, 0))
    for ch in ('a', 'ä', '中', '\U0001d49c'):
        for n in (31, 32, 33, 62, 63, 64, 65, 66, 103, 110, 111, 127, 128):
            out.append((CFG_J, 'joliet', ch * n, False, 0))
            out.append((CFG_J, 'joliet', ch * n, True, 0))
    for ch in ('a', 'ä', '中'):
        for n in (126, 127, 128, 253, 254, 255, 256, 300):
            out.append((CFG_U, 'udf', ch * n, False, 0))
            out.append((CFG_U, 'udf', ch * n, True, 0))
    return out


# ----------------------------------------------------------------------------- duplicate histories

def dup_alphabet(cfg):
    """Every way to (re-)introduce the identifier X (and Y) in every namespace, and to remove it."""
    rr = cfg.get('rr')

    def rrn(n):
        return {'rr_name': n} if rr else {}
    A = []
    for nm in ('X',):
        A.append(['add_fp', dict({'content': 'c1', 'iso_path': '/' + nm}, **rrn('x'))])
        A.append(['add_fp', dict({'content': 'c2049', 'iso_path': '/' + nm + '.;1'}, **rrn('x1'))])
        A.append(['add_directory', dict({'iso_path': '/' + nm}, **rrn('xd'))])
        if cfg.get('joliet'):
            A.append(['add_fp', {'content': 'c1', 'joliet_path': '/' + nm}])
            A.append(['add_directory', {'joliet_path': '/' + nm}])
            A.append(['add_fp', dict({'content': 'c1', 'iso_path': '/Y.;1', 'joliet_path': '/' + nm}, **rrn('y'))])
        if cfg.get('udf'):
            A.append(['add_fp', {'content': 'c1', 'udf_path': '/' + nm}])
            A.append(['add_directory', {'udf_path': '/' + nm}])
            A.append(['add_symlink', {'udf_symlink_path': '/' + nm, 'udf_target': 't'}])
        if rr:
            A.append(['add_symlink', {'symlink_path': '/' + nm, 'rr_symlink_name': 'xs', 'rr_path': 't'}])
        A.append(['add_hard_link', dict({'iso_old_path': '/Y.;1', 'iso_new_path': '/' + nm}, **rrn('xl'))])
        if cfg.get('joliet'):
            A.append(['add_hard_link', {'iso_old_path': '/Y.;1', 'joliet_new_path': '/' + nm}])
        if cfg.get('udf'):
            A.append(['add_hard_link', {'iso_old_path': '/Y.;1', 'udf_new_path': '/' + nm}])
        A.append(['add_eltorito', dict({'bootfile_path': '/Y.;1', 'bootcatfile': '/' + nm}, **({'rr_bootcatname': 'xc'} if rr else {}))])
        A.append(['rm_file', {'iso_path': '/' + nm}])
        A.append(['rm_directory', {'iso_path': '/' + nm}])
        if cfg.get('joliet'):
            A.append(['rm_file', {'joliet_path': '/' + nm}])
            A.append(['rm_directory', {'joliet_path': '/' + nm}])
        if cfg.get('udf'):
            A.append(['rm_hard_link', {'udf_path': '/' + nm}])
            A.append(['rm_directory', {'udf_path': '/' + nm}])
    A.append(['add_fp', dict({'content': 'c1', 'iso_path': '/Y.;1'}, **rrn('y0'))])
    if rr:
        # the Rock Ridge names of a directory are a namespace too: one Rock Ridge name under several ISO9660 identifiers
        A.append(['add_fp', {'content': 'c1', 'iso_path': '/P.;1', 'rr_name': 'same'}])
        A.append(['add_directory', {'iso_path': '/Q', 'rr_name': 'same'}])
        A.append(['add_symlink', {'symlink_path': '/R.;1', 'rr_symlink_name': 'same', 'rr_path': 't'}])
        A.append(['add_hard_link', {'iso_old_path': '/Y.;1', 'iso_new_path': '/T.;1', 'rr_name': 'same'}])
        A.append(['add_eltorito', {'bootfile_path': '/Y.;1', 'bootcatfile': '/U.;1', 'rr_bootcatname': 'same'}])
        A.append(['rm_file', {'iso_path': '/P.;1'}])
    return A


def run_dup(cfg, ops_list, res=None):
    """Apply the ops; after each: accepted => model accepts (no duplicate/illegal) and image has no duplicates."""
    env.reset()
    impl = Impl(cfg)
    model = Model(cfg)
    viols = []
    for i, op in enumerate(ops_list):
        m2 = model.copy()
        try:
            m2.apply(op)
            model_ok = True
            why = ''
        except ModelRefuse as e:
            model_ok = False
            why = str(e)
        try:
            impl.apply(op)
            accepted = True
        except env.InvalidInput:
            accepted = False
        except Exception as e:
            t, site = explore.exc_site(e)
            viols.append({'clause': 'an illegal edit is refused with the invalid-input error', 'cls': '%s: %s@%s' % (op[0], t, site),
                          'msg': 'step %d %s raised %s: %s' % (i, op, t, str(e)[:120])})
            return viols, i, 'crash'
        if res is not None:
            res.count('edits_attempted')
            res.count('edits_accepted' if accepted else 'edits_refused')
        if accepted and not model_ok:
            viols.append({'clause': 'an edit that would break a naming rule is refused at the time of the edit',
                          'cls': '%s(%s) accepted: %s' % (op[0], ','.join(sorted(k for k in op[1] if k != 'content')), why),
                          'msg': 'step %d %s was accepted although: %s (history %s)' % (i, op, why, ops_list[:i])})
            return viols, i, 'accepted illegal'
        if not accepted and model_ok:
            if res is not None:
                res.count('legal_but_refused')
            return viols, i, 'refused legal'
        if not accepted:
            # whether a refusal leaves residue is C14's subject: do not build on this object any further
            return viols, i, 'refused'
        model = m2
        try:
            img = impl.write()
        except Exception as e:
            t, site = explore.exc_site(e)
            viols.append({'clause': 'an accepted edit does not fail later during write', 'cls': '%s: write %s@%s' % (op[0], t, site),
                          'msg': 'after %s write_fp raised %s: %s' % (ops_list[:i + 1], t, str(e)[:120])})
            return viols, i, 'write'
        v = image_rules(img, str(ops_list[:i + 1]))
        if v:
            return viols + v, i, 'image'
    return viols, len(ops_list), 'ok'


# ----------------------------------------------------------------------------- tasks

BOUNDS = {'quick': {'strlen': 4, 'dup_depth': 3}, 'thorough': {'strlen': 5, 'dup_depth': 4}}
DUP_CFGS = [ops.mk(1), ops.mk(3, joliet=3), ops.mk(3, joliet=3, rr='1.09'), ops.mk(3, udf=True), ops.mk(3, joliet=3, rr='1.12', udf=True)]


def tasks(tier):
    b = BOUNDS[tier]
    out = []
    for first in SIGMA_N:
        for lvl in (1, 2, 3, 4):
            out.append({'kind': 'strings', 'first': first, 'level': lvl, 'maxlen': b['strlen']})
    out.append({'kind': 'strings', 'first': '', 'level': 0, 'maxlen': 0})
    bc = boundary_cases()
    for i in range(16):
        out.append({'kind': 'boundary', 'cases': [[c, ns, name, is_dir, dp] for c, ns, name, is_dir, dp in bc[i::16]]})
    for cfg in DUP_CFGS if tier == 'thorough' else DUP_CFGS[:4]:
        A = dup_alphabet(cfg)
        for i in range(len(A)):
            out.append({'kind': 'dup', 'cfg': cfg, 'first': i, 'depth': b['dup_depth']})
    for cfg in (ops.mk(1, rr='1.09'), ops.mk(3, joliet=3, rr='1.12', udf=True)):
        out.append({'kind': 'reloc', 'cfg': cfg})
    return out


def run_task(task):
    res = Result()
    if task['kind'] == 'reloc':
        # Rock Ridge relocation gathers directories from different parents in one directory: same-name collisions
        chain = dict((it[0], it[1]) for it in ops.chains_for(task['cfg'], 'quick'))['reloc-collide']
        for i in range(1, len(chain) + 1):
            seq = chain[:i]
            vs, upto, tag = run_dup(task['cfg'], seq, res)
            res.count('evaluations')
            for v in vs:
                res.violation(v['clause'], v['cls'], v['msg'], {'kind': 'dup', 'cfg': task['cfg'], 'ops': seq, 'size': len(seq)})
            if vs or tag != 'ok':
                break
        return res

    def rec(vs, case):
        for v in vs:
            res.violation(v['clause'], v['cls'], v['msg'], case)
    if task['kind'] == 'strings':
        if task['maxlen'] == 0:
            for lvl in (1, 2, 3, 4):
                for is_dir in (False, True):
                    vs, tag = attempt(CFG_ISO[lvl], 'iso', '', is_dir)
                    res.count('evaluations')
                    rec(vs, {'kind': 'string', 'cfg': CFG_ISO[lvl], 'ns': 'iso', 'name': '', 'is_dir': is_dir, 'depth': 0, 'size': 0})
            return res
        cfg = CFG_ISO[task['level']]
        for n in range(1, task['maxlen'] + 1):
            for t in itertools.product(SIGMA_N, repeat=n - 1):
                s = task['first'] + ''.join(t)
                for is_dir in (False, True):
                    vs, tag = attempt(cfg, 'iso', s, is_dir)
                    res.count('evaluations')
                    res.count('string_' + tag.replace(' ', '_'))
                    res.add('outcomes', _stable((tag, is_dir, task['level'], legal_iso(s, cfg, is_dir))) & 0xffff)
                    rec(vs, {'kind': 'string', 'cfg': cfg, 'ns': 'iso', 'name': s, 'is_dir': is_dir, 'depth': 0, 'size': len(s)})
        res.sample({'kind': 'strings', 'first': task['first'], 'level': task['level'], 'maxlen': task['maxlen']})
    elif task['kind'] == 'boundary':
        for cfg, ns, name, is_dir, dp in task['cases']:
            vs, tag = attempt(cfg, ns, name, is_dir, dp)
            res.count('evaluations')
            res.count('boundary_' + tag.replace(' ', '_'))
            res.add('outcomes', _stable((tag, ns, is_dir, cfg_name(cfg), len(name))) & 0xffff)
            rec(vs, {'kind': 'string', 'cfg': cfg, 'ns': ns, 'name': name, 'is_dir': is_dir, 'depth': dp, 'size': len(name)})
    else:
        cfg = task['cfg']
        A = dup_alphabet(cfg)

        def dfs(seq):
            vs, upto, tag = run_dup(cfg, seq, res)
            res.count('evaluations')
            res.add('outcomes', _stable((tag, cfg_name(cfg), seq[-1][0] if seq else '')) & 0xffff)
            rec(vs, {'kind': 'dup', 'cfg': cfg, 'ops': seq, 'size': len(seq)})
            if vs or tag != 'ok' or len(seq) >= task['depth']:
                return
            for op in A:
                dfs(seq + [op])
        dfs([A[task['first']]])
        res.sample({'kind': 'dup', 'cfg': cfg, 'first': A[task['first']], 'depth': task['depth']})
    return res


def check_case(case):
    if case['kind'] == 'string':
        vs, tag = attempt(case['cfg'], case['ns'], case['name'], case['is_dir'], case.get('depth', 0))
        return vs
    vs, upto, tag = run_dup(case['cfg'], case['ops'])
    return vs


def shrink(case):
    if case['kind'] == 'string':
        s = case['name']
        for i in range(len(s)):
            if len(s) > 1:
                c = dict(case)
                c['name'] = s[:i] + s[i + 1:]
                c['size'] = len(c['name'])
                yield c
    else:
        o = case['ops']
        for i in range(len(o)):
            if len(o) > 1:
                c = dict(case)
                c['ops'] = o[:i] + o[i + 1:]
                c['size'] = len(c['ops'])
                yield c


def coverage(tier, r):
    b = BOUNDS[tier]
    return {
        'evaluations': r.n.get('evaluations', 0),
        'distinct_nontrivial': len(r.sets.get('outcomes', ())),
        'rule': 'every ISO9660 path component of length 0..%d over %d characters x levels 1-4 x file/dir as a single edit on a fresh image; '
                'boundary families (8.3, directory 8/207/255, record length 215..261, versions, depth 6..9, Joliet 31..128 units incl. non-BMP, UDF 126..300); '
                'duplicate histories: every sequence of depth <= %d over the re-add alphabet (same identifier as file/dir/symlink/link/boot catalog in every namespace, '
                'removed and re-added).  distinct = distinct (outcome, kind, level, legality) classes' % (b['strlen'], len(SIGMA_N), b['dup_depth']),
        'exhaustive': True,
        'legal_but_refused': r.n.get('legal_but_refused', 0),
    }
