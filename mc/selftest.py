"""./check --selftest : interpreter, imports, determinism (DESIGN 2.2), model, decoder vectors, evidence schema."""
import hashlib
import io
import json
import os
import subprocess
import sys


def _image_digest():
    from mc import env, explore, ops
    cfg = ops.mk(3, joliet=3, rr='1.09', udf=True)
    steps = [[ops.add_dir(cfg, 'D1')], [ops.add_fp(cfg, 'A', '/', 'boot')], [ops.add_fp(cfg, 'AB', 'D1', 'c2049')],
             [['add_eltorito', {'bootfile_path': '/A.;1', 'boot_load_size': 4}]],
             [['add_isohybrid', {}]]]
    impl, info = explore.run_history(cfg, steps)
    assert impl is not None, info
    return hashlib.sha256(impl.write()).hexdigest()


def main():
    ok = True
    from mc import env
    print('selftest: python %s, pycdlib from %s' % (sys.version.split()[0], env.pycdlib.__file__))
    a = _image_digest()
    b = _image_digest()
    out = subprocess.run([sys.executable, '-c',
                          'import sys; sys.path.insert(0, %r); from mc import selftest; print(selftest._image_digest())' % env.VERIF],
                         stdout=subprocess.PIPE, cwd=env.VERIF, env=dict(os.environ, PYTHONHASHSEED='123')).stdout.decode().strip().splitlines()[-1]
    if not (a == b == out):
        print('selftest: FAIL determinism: %s %s %s' % (a, b, out))
        ok = False
    else:
        print('selftest: determinism ok (UDF+hybrid image identical twice in-process and in a second process): %s' % a[:16])
    # model self-test
    from mc import model, ops
    m = model.Model(ops.mk(3, joliet=3, rr='1.09', udf=True))
    m.apply(ops.add_fp(m.cfg, 'A', '/', 'c1'))
    assert m.canon() == m.copy().canon()
    try:
        m.apply(ops.add_fp(m.cfg, 'A', '/', 'c1'))
        ok = False
        print('selftest: FAIL model accepted a duplicate')
    except model.ModelRefuse:
        pass
    # decoders' vectors
    try:
        from mc.readers import vectors
        ok = vectors.main() and ok
    except ImportError:
        pass
    # evidence schema validation (needs jsonschema from the tooling venv; optional at run time)
    evdir = os.path.join(env.VERIF, 'evidence')
    files = [f for f in sorted(os.listdir(evdir)) if f.endswith('.json')] if os.path.isdir(evdir) else []
    if files and os.path.exists('/opt/veriftools/pyvenv/bin/python'):
        code = ("import json,sys,jsonschema; s=json.load(open('/root/.vp/EVIDENCE.schema.json'));\n"
                "bad=0\n"
                "for f in sys.argv[1:]:\n"
                "    try: jsonschema.validate(json.load(open(f)), s)\n"
                "    except Exception as e: print('selftest: evidence invalid', f, str(e)[:200]); bad=1\n"
                "sys.exit(bad)")
        r = subprocess.run(['/opt/veriftools/pyvenv/bin/python', '-c', code] + [os.path.join(evdir, f) for f in files])
        if r.returncode != 0:
            ok = False
        else:
            print('selftest: %d evidence files validate against the schema' % len(files))
    print('selftest: %s' % ('ok' if ok else 'FAILED'))
    return 0 if ok else 1
