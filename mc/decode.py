"""Glue: run the independent decoders on an image and build observations in the driver's shape."""
from mc.readers import r119, rsusp


class Decoded(object):
    pass


def decode_iso(img):
    d = Decoded()
    d.vol = r119.decode(img)
    d.rr = None
    if d.vol.trees.get('iso') is not None:
        d.rr = rsusp.decode(img, d.vol)
        is_cl = None
        if d.rr.present:
            # a CL placeholder is recorded as a file: nothing to exclude from the path table
            pass
        r119.check_tables(d.vol, img, is_cl)
        r119.finish(d.vol, img, d.rr.not_files if d.rr.present else ())
    return d


def observation(img, d):
    """Observation of the image through the independent decoders, in driver.observe()'s shape."""
    out = {}
    vol = d.vol
    iso = {}
    t = vol.trees.get('iso')
    if t is not None:
        for p, e in t.by_path.items():
            if e.is_dir:
                iso[p] = ('dir', e.hidden)
            else:
                iso[p] = ('file', e.hidden, r119.file_bytes(img, e))
        out['iso'] = iso
    t = vol.trees.get('joliet')
    if t is not None:
        out['joliet'] = dict((p, ('dir', e.hidden) if e.is_dir else ('file', e.hidden, r119.file_bytes(img, e)))
                             for p, e in t.by_path.items())
    if d.rr is not None and d.rr.present:
        rr = {}
        for p, n in d.rr.logical.items():
            if n.kind == 'dir':
                rr[p] = ('dir', n.mode if p != '/' else None)
            elif n.kind == 'sym':
                rr[p] = ('sym', n.target)
            else:
                rr[p] = ('file', n.mode, r119.file_bytes(img, n.entry))
        out['rr'] = rr
    return out
