#!/venv/bin/python
"""Run every kept seeded change against the listed checks (quick tier) and write seeded/MATRIX.json."""
import json, os, subprocess, sys
HERE = os.path.dirname(os.path.dirname(os.path.abspath(__file__)))
SEEDS = {
 # id: (incoming dir, property, needs, checks to run)
 'C01-ce-gap-off-by-one': ('C01/1', 'C01', 'rm_directory of a middle long-named directory, then add_directory with a Rock Ridge name exactly one byte longer (hole + 1)', ['C01', 'C04', 'C08']),
 'C01-dirwriter-exact-fit': ('C01/2', 'C01', 'a directory whose records fill a sector exactly (45 x 44 bytes + dot/dotdot)', ['C01', 'C03', 'C04']),
 'C02-modify-wrong-offset': ('C02/1', 'C02', 'modify_file_in_place of a file whose Joliet / hard-link record sits at a different offset than its ISO9660 record', ['C17']),
 'C02-stale-joliet-cache-reuse': ('C02/2', 'C02', 'the same PyCdlib object close()d and re-used, a Joliet path looked up in the first generation, an add below it in the second', ['C02']),
 'C03-dup-pvd-ptr-size': ('C03/1', 'C03', 'duplicate_pvd plus a directory add/remove that moves the path table across 4096 bytes', ['C03']),
 'C03-dirwriter-exact-fit-2': ('C03/2', 'C03', 'records of mixed length summing to exactly 2048 bytes in one sector', ['C03']),
 'C04-ce-gap-off-by-one': ('C04/1', 'C04', 'as C01-ce-gap-off-by-one (independently written)', ['C04', 'C08']),
 'C04-dirwriter-exact-fit': ('C04/2', 'C04', 'as C01-dirwriter-exact-fit (independently written)', ['C04', 'C03']),
 'C05-udf-fid-boundary': ('C05/1', 'C05', 'a UDF file identifier that starts exactly on a sector boundary of the directory data (1-char name + 41 x 8-char names)', ['C05', 'C10']),
 'C05-gpt-secondary-hfs': ('C05/2', 'C05', 'BIOS entry + two EFI sections + add_isohybrid(mac=True), then open and write again', ['C05']),
 'C06-ptr-parent-stale': ('C06/1', 'C06', 'a directory at depth >= 2 added after a recomputation already placed its parent (always-consistent or force_consistency in between)', ['C06']),
 'C06-set-inode-stale': ('C06/2', 'C06', 'add_hard_link on a file already placed by an earlier recomputation whose data does not move', ['C06']),
 'C07-stale-index-in-parent': ('C07/1', 'C07', 'multi-sector directory; a short name inserted into the slack of the first sector; then removal of a name in a later sector', ['C01']),
 'C07-eltorito-ref-lost-on-open': ('C07/2', 'C07', 'reopened El Torito image with a visible boot file whose last directory name is removed with rm_hard_link', ['C07', 'C02']),
 'C08-ce-gap-off-by-one': ('C08/1', 'C08', 'as C01-ce-gap-off-by-one with a +1 instead of a missing -1', ['C08', 'C04']),
 'C08-linkcount-px-in-ce': ('C08/2', 'C08', 'directory whose PX lives in the continuation area (200-byte name), a sub-directory added and removed', ['C08']),
 'C09-stale-joliet-cache': ('C09/1', 'C09', 'Joliet path looked up, entry removed, same path re-created, then used as a parent', ['C09', 'C01']),
 'C09-modify-joliet-offset': ('C09/2', 'C09', 'modify_file_in_place of a file whose Joliet record length differs from its ISO9660 record length', ['C17']),
 'C10-udf-fid-boundary': ('C10/1', 'C10', 'as C05-udf-fid-boundary (independently written)', ['C10']),
 'C10-symlink-ucs2-length': ('C10/2', 'C10', 'UDF symlink whose target has a component that needs UCS-2', ['C10']),
 'C11-bit-checksum-first-sector': ('C11/1', 'C11', 'boot file larger than 2048 bytes with non-zero data beyond the first sector and boot_info_table=True', ['C11']),
 'C11-rm-eltorito-section-bit': ('C11/2', 'C11', 'two boot images, boot info table on the section entry, then rm_eltorito', ['C11']),
 'C12-update-efi-early-return': ('C12/1', 'C12', 'EFI hybrid whose extents were assigned once (force_consistency / always-consistent) before an edit changes the image size', ['C12']),
 'C12-chs-high-cylinder-bits': ('C12/2', 'C12', 'more than 256 cylinders (small geometry)', ['C12']),
 'C13-rr-moved-rename-once': ('C13/1', 'C13', 'three depth-8 directories with the same ISO9660 name in different parents (all relocated into RR_MOVED)', ['C13', 'C03']),
 'C13-version-zero': ('C13/2', 'C13', "a file identifier with version 0 ('X.;0')", ['C13']),
 'C14-relocated-name-residue': ('C14/2', 'C14', 'set_relocated_name refused for an illegal ISO9660 name, later a depth-8 add_directory', ['C14']),
 'C15-bit-orig-len-loop': ('C15/1', 'C15', 'boot info table whose orig_len field is corrupted to a huge value', ['C15']),
 'C15-zero-padding-no-advance': ('C15/2', 'C15', 'directory length enlarged so that it covers a block starting with 0x00', ['C15']),
 'C16-startpos-planned-extent': ('C16/1', 'C16', 'opened image, edits that shift planned extents, a layout recompute, then a stream read', ['C16']),
 'C16-readinto-no-seek': ('C16/2', 'C16', 'readinto with another read on the same image in between', ['C16']),
 'C17-linked-record-sector': ('C17/1', 'C17', 'multi-sector directory in which the Joliet record of the file sits in another sector index than its ISO9660 record', ['C17']),
 'C17-zero-pad-full-sector': ('C17/2', 'C17', 'new length an exact multiple of 2048', ['C17']),
 'C18-dollar-newline': ('C18/1', 'C18', "a name that ends in a newline after truncation ('$' matches before it)", ['C18']),
 'C18-dir-maxlen-level1': ('C18/2', 'C18', 'directory name longer than 8 characters at interchange level 1', ['C18']),
 'C19-leap-year-rollover': ('C19/1', 'C19', 'non-zero offset and an instant within that offset of the New Year that ends a leap year', ['C19']),
 'C19-vd-offset-clamp': ('C19/2', 'C19', 'zone more than 13 hours east of GMT (17-byte dates only)', ['C19']),
 'C20-dup-hash-cache': ('C20/1', 'C20', '-scan-for-duplicates with three equal-size files: first differs, second and third identical, breadth-first order', ['C20']),
 'C20-symlink-component-continue': ('C20/2', 'C20', 'Rock Ridge symlink whose SL record fills up exactly between two path components (first component 125..129 bytes)', ['C20', 'C08']),
 # ---- round 2: written against the repaired tree
 'C01-r2-dirwriter-ge-exact-fit': (None, 'C01', 'a directory whose records fill a sector exactly (ISO9660: 45 entries with 11-byte identifiers; Joliet: 18 names of 38 characters)', ['C01', 'C03', 'C04']),
 'C01-r2-relayout-early-exit-index': (None, 'C01', 'a directory spanning two extents, an add that lands in the slack of the first block, then a removal in the second block', ['C01']),
 'C02-r2-ce-gap-inclusive-end': (None, 'C02', 'three records with continuation entries in one block, the middle one removed, write + reopen (the hole only exists after a parse), then an add whose continuation entry is one byte larger than the hole', ['C02', 'C08', 'C04']),
 'C02-r2-relayout-early-exit-index': (None, 'C02', 'multi-extent directory with records of different lengths; add/remove in an earlier extent absorbed at the boundary; then removal of a child beyond it in the same session', ['C02', 'C01']),
 'C04-r2-ce-gap-inclusive-end': (None, 'C04', 'as C02-r2-ce-gap-inclusive-end without the reopen (rm_directory frees the entry in memory)', ['C04', 'C08']),
 'C04-r2-dirwriter-ge-exact-fit': (None, 'C04', 'as C01-r2-dirwriter-ge-exact-fit (independently written)', ['C04', 'C03']),
 'C06-r2-set-inode-skip-unmoved': (None, 'C06', 'two recomputations with a new record linked to an existing inode in between, the inode keeping its extent (second add_eltorito section on the same boot file; add_hard_link in always-consistent mode)', ['C06']),
 'C06-r2-rr-cache-not-cleared': (None, 'C06', 'a query by rr_path before a removal, the same name added again with another length, then force_consistency and a query by rr_path', ['C06']),
 'C07-r2-unlink-by-equality': (None, 'C07', 'the same identifier linked in two directories of one namespace (equal recording dates), the later-created link removed first', ['C07']),
 'C07-r2-udf-link-count-after-reopen': (None, 'C07', 'a UDF hard link created before a reopen, then an edit that moves the File Entries', ['C07', 'C02', 'C10']),
 'C10-r2-udf-dir-three-sectors': (None, 'C10', 'a UDF directory with more than 4096 bytes of file identifiers', ['C10']),
 'C10-r2-udf-cache-survives-close': (None, 'C10', 're-use of the same PyCdlib object after close() with an edit below a UDF path looked up before the close', ['C02', 'C10']),
 'C11-r2-section-no-reshuffle': (None, 'C11', 'lazy mode, a second add_eltorito on a clean layout (right after open / write / force_consistency), no other edit before the write', ['C11', 'C06']),
 'C11-r2-hidden-bit-not-recognised': (None, 'C11', 'boot info table on a boot file whose ISO9660 name was removed, write, reopen, an edit that moves the boot file, write', ['C11']),
 'C14-r2-udf-link-count-residue': (None, 'C14', 'add_hard_link(udf_new_path=<taken name>) refused, then a later edit of the same file', ['C14']),
 'C14-r2-default-bootcat-late': (None, 'C14', 'a /boot.cat already present in Joliet or UDF and add_eltorito relying on the default catalog names', ['C14']),
 'C16-r2-relative-seek-shared-position': (None, 'C16', 'seek(n, 1) after anything else moved the backing file (second stream, extraction, write)', ['C16']),
 'C16-r2-joliet-cache-survives-rm': (None, 'C16', 'a lookup by joliet_path, removal of the file, then a read of that name (or of the re-added name) by joliet_path', ['C16', 'C07']),
 'C17-r2-zero-pad-full-sector': (None, 'C17', 'new length a non-zero multiple of 2048 with something directly behind the file', ['C17']),
 'C17-r2-boundary-ge-offsets': (None, 'C17', 'a multi-sector directory whose records fill a sector exactly; the target is the boundary record or a later one', ['C17']),
 'C03-r2-dotdot-length-after-shrink': (None, 'C03', 'a directory spanning two sectors with a sub-directory that sorts before the removed entry, and a removal that frees a whole sector', ['C03']),
 'C03-r2-dirwriter-ge-exact-fit': (None, 'C03', 'as C01-r2-dirwriter-ge-exact-fit (independently written)', ['C03', 'C01']),
 'C05-r2-udf-fid-parse-boundary': (None, 'C05', 'a UDF directory whose file identifiers hit 2048 bytes exactly (a FID starting on the block boundary), opened and written again', ['C05']),
 'C05-r2-sl-continue-flag-parse': (None, 'C05', 'a symlink target needing two SL records with the split between two components (first component of 128..134 characters)', ['C05', 'C08']),
 'C08-r2-sl-continue-only-when-split': (None, 'C08', 'a symlink target too long for one SL record made of several short components', ['C08']),
 'C08-r2-ce-gap-inclusive-end': (None, 'C08', 'as C04-r2-ce-gap-inclusive-end (independently written)', ['C08', 'C04']),
 'C09-r2-relayout-early-exit-index': (None, 'C09', 'a Joliet directory spanning two extents; insertion into the slack of the first, then removal in the second', ['C09', 'C01']),
 'C09-r2-joliet-limit-code-points': (None, 'C09', 'a Joliet name with more than 32 characters outside the BMP', ['C09', 'C13']),
 'C12-r2-stale-gpt-unmoved-efi': (None, 'C12', 'an EFI hybrid whose GPT was already computed, then a size-changing edit that leaves the boot files in place', ['C12']),
 'C12-r2-padding-forgets-backup-header': (None, 'C12', 'an EFI hybrid whose ISO ends exactly 16 KiB before a cylinder boundary (or tiny geometries)', ['C12']),
 'C13-r2-tail-fast-path': (None, 'C13', 'add_hard_link onto the name that sorts last in its directory', ['C13']),
 'C13-r2-udf-length-in-characters': (None, 'C13', 'a UDF name of 128..254 characters with at least one character outside Latin-1', ['C13', 'C10']),
 'C15-r2-joliet-directory-cycle': (None, 'C15', 'a Joliet image whose Joliet tree contains a directory pointing back at an ancestor', ['C15']),
 'C15-r2-udf-root-entry-unreadable': (None, 'C15', 'a UDF image whose root File Entry sector is zeroed or whose root ICB points outside the image', ['C15']),
 'C18-r2-unicode-decimal-digits': (None, 'C18', 'a source name with a non-ASCII decimal digit at level 1-3', ['C18']),
 'C18-r2-facade-parent-cache': (None, 'C18', 'one Rock Ridge facade kept and re-used after the directory it added to was removed and its ISO9660 name re-used under another Rock Ridge name', ['C18']),
 'C19-r2-leap-year-new-year': (None, 'C19', 'a zone other than UTC and an instant within the offset of the New Year that follows a leap year', ['C19']),
 'C19-r2-udf-dst-all-year': (None, 'C19', 'a UDF image, a zone with DST rules and an instant in its standard-time period', ['C19']),
 'C20-r2-nm-appended-to-fallback': (None, 'C20', '-iso-level 4 with -R and a name of about 182..193 bytes (no NM byte fits the directory record), after reopening', ['C20', 'C08']),
 'C20-r2-udf-file-entry-cache': (None, 'C20', '-udf with -scan-for-duplicates and two files of identical content, extracted through the UDF view', ['C20', 'C07']),
 # ---- round 3: agents steered to different parts of the code
 'C01-r3-udf-fid-remove-length': (None, 'C01', 'removal of a UDF entry whose 8-bit name is 1, 5, 9, 13 ... characters long', ['C01', 'C10']),
 'C01-r3-udf-dir-overhang-reset': (None, 'C01', 'a UDF directory needing three or more blocks of file identifiers', ['C01', 'C10']),
 'C02-r3-udf-empty-files-share-inode': (None, 'C02', 'two empty files in one UDF directory, written and reopened, then rm_file(udf_path) of one of them', ['C02', 'C07']),
 'C02-r3-last-dup-pvd-root': (None, 'C02', 'three PVDs (duplicate_pvd twice), reopened, then an edit that makes the root directory grow', ['C02']),
 'C04-r3-pt-floor-vs-ceiling': (None, 'C04', 'a path table larger than 4096 bytes, a removal that leaves exactly 4096, then any add_directory', ['C04', 'C03']),
 'C04-r3-dup-pvd-pt-skip': (None, 'C04', 'duplicate_pvd before enough add_directory calls push the path table past 4096 bytes', ['C04', 'C03']),
 'C07-r3-rm-eltorito-shared-boot-file': (None, 'C07', 'one boot file referenced by two El Torito entries, rm_eltorito, then removal of the file', ['C07', 'C11']),
 'C07-r3-udf-num-udf-guard': (None, 'C07', 'one content with two UDF names, a reopen, then an edit that moves the File Entries', ['C07', 'C02']),
 'C08-r3-cl-not-counted-in-ce': (None, 'C08', 'a relocated directory whose Rock Ridge name is long enough that the CL entry moves into the continuation area', ['C08']),
 'C08-r3-link-count-sign-in-ce': (None, 'C08', 'a long-named directory (PX in the continuation area) and the removal of one of its sub-directories', ['C08']),
 'C10-r3-shrink-info-len': (None, 'C10', 'modify_file_in_place with a strictly smaller length on a file that has a UDF name', ['C17', 'C10']),
 'C10-r3-partition-map-swapped': (None, 'C10', 'open an existing UDF image and write it (odd generations)', ['C10', 'C05']),
 'C11-r3-bit-hidden-length-check': (None, 'C11', 'boot info table on a hidden boot file whose length is not a multiple of 2048; write, reopen, an edit that moves the file, write', ['C11']),
 'C11-r3-section-not-last-first': (None, 'C11', 'four or more add_eltorito calls on one image', ['C11']),
 'C12-r3-stale-gpt-early-return': (None, 'C12', 'EFI hybrid whose image size changes while the EFI image stays put (second write, or open + add + write)', ['C12']),
 'C12-r3-padding-floor': (None, 'C12', 'EFI hybrid with tiny cylinders (heads x sectors <= 32)', ['C12']),
 'C17-r3-hoisted-record-length': (None, 'C17', 'a second directory record of the file (Joliet name or hard link) whose record length differs from the ISO9660 one', ['C17']),
 'C17-r3-boundary-ge-offsets': (None, 'C17', 'as C17-r2-boundary-ge-offsets (independently written)', ['C17']),
 'C20-r3-hash-not-chained': (None, 'C20', '-scan-for-duplicates with two different files of the same size >= 32 KiB that share their last 32 KiB chunk', ['C20']),
 'C20-r3-udf-symlink-last-dot': (None, 'C20', 'a UDF symlink whose last component is . or .., extracted through the UDF view', ['C20']),
 # ---- round 4
 'C03-r4-dirwriter-ge-exact-fit': (None, 'C03', 'as C01-r2-dirwriter-ge-exact-fit (independently written)', ['C03']),
 'C03-r4-seqnum-big-endian-from-set-size': (None, 'C03', 'new(set_size=2, seqnum=1): volume set size different from the volume sequence number', ['C03']),
 'C06-r4-zero-byte-add-not-dirty': (None, 'C06', 'lazy mode, an add that needs no new space (hard link, symlink, empty file) right after a recomputation, no growing edit afterwards', ['C06']),
 'C06-r4-rr-cache-kept-for-files': (None, 'C06', 'a query by rr_path of a file before rm_file, the name added again, then any rr_path operation', ['C06']),
 'C13-r4-version-int-parse': (None, 'C13', "a file version that int() accepts but is not all digits (';+1', '; 1', ';1_0')", ['C13']),
 'C13-r4-udf-length-in-characters': (None, 'C13', 'as C13-r2-udf-length-in-characters (independently written)', ['C13']),
 'C14-r4-rmdir-udf-emptiness-off-by-one': (None, 'C14', 'rm_directory through udf_path and iso_path/joliet_path of a directory with exactly one UDF-only child', ['C14']),
 'C14-r4-symlink-target-late': (None, 'C14', 'add_symlink into UDF and another namespace with an over-long UDF target component (the repaired defect, re-introduced)', ['C14']),
 'C16-r4-readall-no-seek': (None, 'C16', 'a direct readall() after anything else moved the backing file', ['C16']),
 'C16-r4-open-data-new-extent': (None, 'C16', 'opened image, an edit that moves files, a layout recomputation, then a read', ['C16']),
 'C19-r4-offset-from-todays-rules': (None, 'C19', 'a tzdata zone whose offset for the same DST state was different at the recorded instant (Europe/Moscow 2011-2014, Europe/London 1968-1971, ...)', ['C19']),
 'C19-r4-udf-year-rollover': (None, 'C19', 'a zone other than UTC and an instant at which the local year differs from the UTC year (UDF timestamps only)', ['C19']),
 # ---- round 5
 'C02-r5-eltorito-length-fixup-late': (None, 'C02', 'an El Torito boot file longer than sector_count*512 bytes that has no ISO9660 name but a Joliet name, parsed from an image, then written again', ['C02']),
 'C04-r5-ce-hole-one-byte-too-big': (None, 'C04', 'as C04-r2-ce-gap-inclusive-end (independently written): a hole between continuation entries and a new entry one byte larger', ['C04']),
 'C05-r5-shared-hidden-boot-length': (None, 'C05', 'one boot file used by two El Torito entries, longer than the first entry says, its ISO9660 name removed while a Joliet name remains; write, open, write', ['C05', 'C11', 'C07']),
 'C07-r5-hidden-boot-inode-unregistered': (None, 'C07', 'a boot file with no ISO9660 name but a Joliet or UDF name, written and reopened (the El Torito entry and the name get separate inodes)', ['C07']),
 'C09-r5-dirwriter-ge-exact-fit': (None, 'C09', 'as C01-r2-dirwriter-ge-exact-fit (independently written): a Joliet directory whose records fill a sector exactly', ['C09']),
 'C14-r5-udf-dup-raw-name-compare': (None, 'C14', 'a UDF entry with a non-ASCII name, then an add with a fresh iso_path/joliet_path and that taken udf_path', ['C14']),
 'C15-r5-dir-dag-exponential-walk': (None, 'C15', 'directory records of one level sharing an extent (a DAG, not a cycle) over 25 or more levels: 2^n walk', ['C15']),
 'C18-r5-upper-ext-length': (None, 'C18', 'a file name whose 1..3 character extension grows when upper-cased (sharp s, ligatures)', ['C18']),
}
only = sys.argv[1:]
if only == ['--collect']:
    SEEDS = {}
out = {}
for sid, (inc, prop, needs, checks) in sorted(SEEDS.items()):
    if only and sid not in only:
        continue
    src = os.path.join(HERE, 'seeded', '_incoming', inc or 'none')
    dst = os.path.join(HERE, 'seeded', sid)
    os.makedirs(dst, exist_ok=True)
    for f in ('patch.diff', 'demo.py', 'notes.md'):
        if inc is not None and os.path.exists(os.path.join(src, f)):
            subprocess.run(['cp', os.path.join(src, f), os.path.join(dst, f)], check=True)
    res = {}
    for c in checks:
        p = subprocess.run([os.path.join(HERE, 'tools', 'seedtest.sh'), os.path.join(dst, 'patch.diff'), 'quick', c], stdout=subprocess.PIPE, stderr=subprocess.STDOUT)
        txt = p.stdout.decode()
        line = [l for l in txt.splitlines() if l.startswith('== ')]
        viol = [l for l in txt.splitlines() if l.strip().startswith('clause=')]
        res[c] = {'reported': bool(line and 'rc=1' in line[0]), 'first': viol[0].strip()[:200] if viol else (txt.strip().splitlines()[-1][:120] if txt.strip() else '')}
    out[sid] = {'property': prop, 'needs': needs, 'checks': res}
    meta = {'id': sid, 'breaks_property': prop, 'needs_to_manifest': needs, 'written_by': 'independent sub-agent given only the property text and a scratch worktree',
            'verified': 'tools/verify_seed.sh in a scratch worktree of /repo HEAD: demo.py exits 0 without the patch and non-zero with it; baseline suite: all 1393 stable tests still pass with the patch',
            'checks_run': dict((c, ('VIOLATION reported' if r['reported'] else 'not reported')) for c, r in res.items()),
            'first_violation': dict((c, r['first']) for c, r in res.items() if r['reported']),
            'how_to_rerun': 'tools/seedtest.sh seeded/%s/patch.diff quick %s' % (sid, ' '.join(checks))}
    json.dump(meta, open(os.path.join(dst, 'meta.json'), 'w'), indent=1)
    print(sid, dict((c, r['reported']) for c, r in res.items()), flush=True)
# MATRIX.json is rebuilt from every seeded/<id>/meta.json, so partial runs do not lose entries
allm = {}
for sid in sorted(os.listdir(os.path.join(HERE, 'seeded'))):
    mp = os.path.join(HERE, 'seeded', sid, 'meta.json')
    if os.path.exists(mp):
        m = json.load(open(mp))
        allm[sid] = {'property': m['breaks_property'], 'needs': m['needs_to_manifest'], 'checks': m['checks_run'], 'first_violation': m.get('first_violation', {})}
json.dump(allm, open(os.path.join(HERE, 'seeded', 'MATRIX.json'), 'w'), indent=1)
