#!/venv/bin/python
"""Regenerate MANIFEST.json from the table below (keeps the file valid at all times)."""
import json
import os
import subprocess

HERE = os.path.dirname(os.path.dirname(os.path.abspath(__file__)))

MC = 'explicit-state exhaustive operation-sequence exploration of the real implementation (stateless, replay per node)'
CHECKS = {
    'C01': ('model_checking', '4/C01',
            'Every edit history over the sigma1 alphabet (plus boundary macro steps, growth/shrink chains and the continuation-area allocator alphabet) up to the depth bound, '
            'in 12 configurations (256 at depth 2 in the thorough tier), is executed on the real implementation, mastered, reopened and compared entry-by-entry and byte-by-byte with a reference model.',
            'reference model mc/model.py; pycdlib reads its own image here (independent readers: C03/C08/C09/C10); alphabet and depth bounds',
            MC + ' against a reference model'),
    'C03': ('model_checking', '4/C03',
            'Every enumerated history is mastered and the bytes are decoded by an independent ECMA-119 reader (mc/readers/r119.py): descriptor set, both-endian fields, record packing and order, dot/dotdot, path tables; '
            'the recovered tree and contents must equal the reference model and what the library API reports.',
            'independent decoder r119 is trusted base (validated by vectors and agreement on the unchanged tree)', MC + ' + independent decoder oracle'),
    'C04': ('model_checking', '4/C04',
            'For every enumerated history the allocation map (union of the layout maps of all independent decoders) is checked for overlap, bounds, exact image length and shared-iff-linked, and the write log of write_fp for bytes written twice.',
            'decoders r119/rsusp/r167/rboot; write log from the recording sink', MC + ' + allocation-map oracle'),
    'C05': ('model_checking', '4/C05',
            'For every enumerated history the image is reopened and re-mastered twice with the virtual clock advanced; generations must be byte-identical outside the volume modification dates.',
            'virtual clock/random seams of mc/env.py; alphabet and depth bounds', MC + ' with a differential (fixpoint) oracle'),
    'C06': ('model_checking', '4/C06',
            'For every base history, every placement of up to k deviations (force_consistency / query-everything / extra write at every gap) and the always-consistent mode is executed; final bytes must equal the deviation-free schedule, and record queries after force_consistency must match the next image.',
            'deviation kinds FC/Q/W/AC; bound on deviations', 'deviation-bounded exhaustive schedule exploration over exhaustive operation sequences'),
    'C08': ('model_checking', '4/C08',
            'Every enumerated history (incl. long names, deep chains, continuation-area allocator alphabet) is decoded by an independent SUSP/RRIP reader; names, types, modes, link counts, symlink targets and area well-formedness are checked.',
            'decoders r119 + rsusp trusted base; link-count rule calibrated on the unchanged tree', MC + ' + independent decoder oracle'),
    'C09': ('model_checking', '4/C09',
            'Every enumerated history on Joliet configurations is decoded from the supplementary descriptor by the independent reader; tree, names, shared extents, path tables.',
            'decoder r119 (UTF-16BE) trusted base', MC + ' + independent decoder oracle'),
    'C10': ('model_checking', '4/C10',
            'Every enumerated history on UDF configurations is decoded by an independent ECMA-167 reader starting from the VRS and both anchors; tags, lengths, tree, names, targets, bytes.',
            'decoder r167 trusted base', MC + ' + independent decoder oracle'),
    'C11': ('model_checking', '4/C11',
            'Every enumerated history with El Torito operations is decoded by an independent El Torito reader: boot record, validation checksum, entries, load RBA vs. file location, catalog as file, boot info table.',
            'decoders rboot + r119 trusted base', MC + ' + independent decoder oracle'),
}

PENDING = {}


def main():
    props = [json.loads(l)['id'] for l in open(os.path.join(HERE, 'properties.jsonl'))]
    try:
        commits = subprocess.run(['git', '-C', '/repo', 'log', '--format=%H %s', '1c3f835..HEAD'], stdout=subprocess.PIPE).stdout.decode().splitlines()
    except Exception:
        commits = []
    checks = []
    for pid in props:
        if pid not in CHECKS:
            continue
        cat, ref, text, note, tech = CHECKS[pid]
        checks.append({
            'property_id': pid,
            'quick_cmd': './check %s --tier quick' % pid,
            'thorough_cmd': './check %s --tier thorough' % pid,
            'evidence_file': 'evidence/%s.json' % pid,
            'replay_cmd_template': './check %s --replay {path}' % pid,
            'engine': 'mc',
            'level_claimed': {'category': cat, 'text': text, 'design_ref': 'DESIGN.md section ' + ref},
            'level_note': note,
            'technique': tech,
        })
    man = {
        'version': 1,
        'setup_cmd': './check --selftest',
        'hooks': {
            'guard': 'PYCDLIB_VERIF',
            'enable': 'no source hooks: checks import pycdlib from /repo and patch time/random/uuid from the harness process (mc/env.py)',
            'baseline_off_cmd': 'cd /repo && /venv/bin/python -m pytest -ra -q -p no:cacheprovider --timeout=900 --continue-on-collection-errors',
            'source_commits': [],
            'add_only': True,
        },
        'engines': [{'name': 'mc', 'path': 'mc/', 'serves_properties': sorted(CHECKS),
                     'kind_free_text': 'hand-written stateless explicit-state explorer (Python) driving the real pycdlib: '
                                       'operation-sequence (E1), deviation/schedule (E2) and fault/input (E3) enumerators, '
                                       'reference model and independent on-disc decoders'}],
        'checks': checks,
        'notes': 'fix: commits in /repo (genuine defects found by these checks): ' + '; '.join(c for c in commits if ' fix:' in c),
        'not_applicable': [{'property_id': p, 'reason': PENDING.get(p, 'check under construction in this round; not yet claimed')}
                           for p in props if p not in CHECKS],
    }
    with open(os.path.join(HERE, 'MANIFEST.json'), 'w') as f:
        json.dump(man, f, indent=1)
    print('MANIFEST.json: %d checks, %d not claimed' % (len(checks), len(man['not_applicable'])))


if __name__ == '__main__':
    main()
