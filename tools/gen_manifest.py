#!/venv/bin/python
"""Regenerate MANIFEST.json from the table below (keeps the file valid at all times)."""
import json
import os
import subprocess

HERE = os.path.dirname(os.path.dirname(os.path.abspath(__file__)))

CHECKS = {
    'C01': ('model_checking', '4/C01',
            'Exhaustive enumeration of every edit history over the sigma1 alphabet up to the depth bound in 12 (quick) / 256 (thorough, depth 2) configurations, '
            'each executed on the real implementation, mastered, reopened and compared entry-by-entry and byte-by-byte with a reference model.',
            'reference model mc/model.py; pycdlib reads its own image here (independent readers: C03/C08/C09/C10); alphabet and depth bounds',
            'explicit-state exhaustive operation-sequence exploration of the implementation against a reference model'),
    'C05': ('model_checking', '4/C05',
            'For every enumerated history the image is reopened and re-mastered twice with the virtual clock advanced; generations must be byte-identical outside the volume modification dates.',
            'virtual clock/random seams of mc/env.py; alphabet and depth bounds',
            'exhaustive operation-sequence exploration with a differential (fixpoint) oracle'),
}

PENDING = {}


def main():
    props = [json.loads(l)['id'] for l in open(os.path.join(HERE, 'properties.jsonl'))]
    try:
        commits = subprocess.run(['git', '-C', '/repo', 'log', '--format=%H %s', '1c3f835..HEAD'], stdout=subprocess.PIPE).stdout.decode().splitlines()
    except Exception:
        commits = []
    checks = []
    for pid in props:
        if pid not in CHECKS:
            continue
        cat, ref, text, note, tech = CHECKS[pid]
        checks.append({
            'property_id': pid,
            'quick_cmd': './check %s --tier quick' % pid,
            'thorough_cmd': './check %s --tier thorough' % pid,
            'evidence_file': 'evidence/%s.json' % pid,
            'replay_cmd_template': './check %s --replay {path}' % pid,
            'engine': 'mc',
            'level_claimed': {'category': cat, 'text': text, 'design_ref': 'DESIGN.md section ' + ref},
            'level_note': note,
            'technique': tech,
        })
    man = {
        'version': 1,
        'setup_cmd': './check --selftest',
        'hooks': {
            'guard': 'PYCDLIB_VERIF',
            'enable': 'no source hooks: checks import pycdlib from /repo and patch time/random/uuid from the harness process (mc/env.py)',
            'baseline_off_cmd': 'cd /repo && /venv/bin/python -m pytest -ra -q -p no:cacheprovider --timeout=900 --continue-on-collection-errors',
            'source_commits': [],
            'add_only': True,
        },
        'engines': [{'name': 'mc', 'path': 'mc/', 'serves_properties': sorted(CHECKS),
                     'kind_free_text': 'hand-written stateless explicit-state explorer (Python) driving the real pycdlib: '
                                       'operation-sequence (E1), deviation/schedule (E2) and fault/input (E3) enumerators, '
                                       'reference model and independent on-disc decoders'}],
        'checks': checks,
        'notes': 'fix: commits in /repo (genuine defects found by these checks): ' + '; '.join(c for c in commits if ' fix:' in c),
        'not_applicable': [{'property_id': p, 'reason': PENDING.get(p, 'check under construction in this round; not yet claimed')}
                           for p in props if p not in CHECKS],
    }
    with open(os.path.join(HERE, 'MANIFEST.json'), 'w') as f:
        json.dump(man, f, indent=1)
    print('MANIFEST.json: %d checks, %d not claimed' % (len(checks), len(man['not_applicable'])))


if __name__ == '__main__':
    main()
