#!/venv/bin/python
"""Regenerate MANIFEST.json from the table below (keeps the file valid at all times)."""
import json
import os
import subprocess

HERE = os.path.dirname(os.path.dirname(os.path.abspath(__file__)))

MC = 'explicit-state exhaustive operation-sequence exploration of the real implementation (stateless, replay per node)'
CHECKS = {
    'C01': ('model_checking', '4/C01',
            'Every edit history over the sigma1 alphabet (plus boundary macro steps, growth/shrink chains and the continuation-area allocator alphabet) up to the depth bound, '
            'in 12 configurations (256 at depth 2 in the thorough tier), is executed on the real implementation, mastered, reopened and compared entry-by-entry and byte-by-byte with a reference model; plus a fixed list of histories with files of 4 GiB and more on virtual devices.',
            'reference model mc/model.py; pycdlib reads its own image here (independent readers: C03/C08/C09/C10); alphabet and depth bounds',
            MC + ' against a reference model'),
    'C03': ('model_checking', '4/C03',
            'Every enumerated history is mastered and the bytes are decoded by an independent ECMA-119 reader (mc/readers/r119.py): descriptor set, both-endian fields, record packing and order, dot/dotdot, path tables; '
            'the recovered tree and contents must equal the reference model and what the library API reports.',
            'independent decoder r119 is trusted base (validated by vectors and agreement on the unchanged tree)', MC + ' + independent decoder oracle'),
    'C04': ('model_checking', '4/C04',
            'For every enumerated history the allocation map (union of the layout maps of all independent decoders) is checked for overlap, bounds, exact image length and shared-iff-linked, and the write log of write_fp for bytes written twice.',
            'decoders r119/rsusp/r167/rboot; write log from the recording sink', MC + ' + allocation-map oracle'),
    'C05': ('model_checking', '4/C05',
            'For every enumerated history the image is reopened and re-mastered twice with the virtual clock advanced; generations must be byte-identical outside the volume modification dates.',
            'virtual clock/random seams of mc/env.py; alphabet and depth bounds', MC + ' with a differential (fixpoint) oracle'),
    'C06': ('model_checking', '4/C06',
            'For every base history, every placement of up to k deviations (force_consistency / query-everything / extra write at every gap) and the always-consistent mode is executed; final bytes must equal the deviation-free schedule, and record queries after force_consistency must match the next image.',
            'deviation kinds FC/Q/W/AC; bound on deviations', 'deviation-bounded exhaustive schedule exploration over exhaustive operation sequences'),
    'C08': ('model_checking', '4/C08',
            'Every enumerated history (incl. complete sweeps over name / identifier / target lengths, deep chains x name lengths built and taken down, continuation-area allocator alphabet) is decoded by an independent SUSP/RRIP reader; names, types, modes, link counts, symlink targets and area well-formedness are checked.',
            'decoders r119 + rsusp trusted base; link-count rule calibrated on the unchanged tree', MC + ' + independent decoder oracle'),
    'C09': ('model_checking', '4/C09',
            'Every enumerated history on Joliet configurations is decoded from the supplementary descriptor by the independent reader; tree, names, shared extents, path tables.',
            'decoder r119 (UTF-16BE) trusted base', MC + ' + independent decoder oracle'),
    'C10': ('model_checking', '4/C10',
            'Every enumerated history on UDF configurations is decoded by an independent ECMA-167 reader starting from the VRS and both anchors; tags, lengths, tree, names, targets, bytes.',
            'decoder r167 trusted base', MC + ' + independent decoder oracle'),
    'C11': ('model_checking', '4/C11',
            'Every enumerated history with El Torito operations is decoded by an independent El Torito reader: boot record, validation checksum, entries, load RBA vs. file location, catalog as file, boot info table.',
            'decoders rboot + r119 trusted base', MC + ' + independent decoder oracle'),
}

CHECKS.update({
    'C02': ('model_checking', '4/C02',
            'Generation chains: every history over sigma1/reopen with REOPEN (write, open the bytes in a fresh object) and REOPEN_SAME (close() and re-use the object) as alphabet members, '
            'plus eight varied base images reopened and then edited exhaustively (incl. macro steps that grow the root directory and the path tables) and the continuation-area alphabet with REOPEN; the last generation - as reopened, and as seen through the object that made the edits - must equal the reference model carried across generations.',
            'reference model; only library-produced images (no foreign corpus is vendored)', MC + ' with reopen transitions against a reference model'),
    'C07': ('model_checking', '4/C07',
            'Every history over the hard-link alphabet sigma7 (links in all directions between ISO9660, Joliet, UDF and the boot catalog, the same identifier in two directories, El Torito references, every removal, reopen) and over the re-add alphabet with a query-everything step: '
            'model equality on the reopened image and on the editing object (removed names no longer resolve), content stored once (allocation map) and release of the volume space exactly when the last reference goes.',
            'reference model of link semantics; 10-sector content for the space clause', MC + ' against a reference model + allocation-map and space-accounting oracles'),
    'C12': ('exploration', '4/C12',
            'Complete products over geometry (63 x 256), partition entry/offset/type, mbr id, plain/EFI/EFI+Mac/second x86 entry, cylinder counts beyond 1024, image sizes in every order and histories with force_consistency before/after add_isohybrid; '
            'decoded by an independent MBR/GPT/APM reader and compared with the non-hybrid image.',
            'decoders rhyb/rboot/r119; isohybrid GPT array CRC convention accepted', 'exhaustive enumeration of finite parameter products on the real implementation with an independent decoder'),
    'C13': ('exploration', '4/C13',
            'Every path component up to length 4 (5) over 10 characters at every level as file and directory, boundary families for every length limit in every namespace, and every duplicate/re-add history up to depth 3 (4), incl. one Rock Ridge name under several identifiers: '
            'accepted => legal, unique in the written image, write succeeds; refused => PyCdlibInvalidInput at the edit.',
            'legality predicate written from the documented rules', 'exhaustive string / history enumeration on the real implementation against a legality predicate'),
    'C14': ('fault_enumeration', '4/C14',
            'At every gap of every base history, every mechanically generated faulty call that actually raises is applied to a twin object; bytes right after, outcomes of later steps and final bytes must equal the twin without the call.',
            'fault candidates of mc/faults.py; differential oracle needs no expected values', 'exhaustive fault placement (refused calls as deviations) over exhaustive operation sequences, differential twin oracle'),
    'C15': ('fault_enumeration', '4/C15',
            'Every truncation point, every byte of every non-zero metadata sector, every both-endian field / UDF word / boot-info-table word x hostile menu and pairs of pointer fields of library-produced seed images: open_fp must return or raise a documented exception within an I/O budget.',
            'seed images from the library; structural fault model; budget = 50 x baseline calls + 2000', 'exhaustive fault enumeration over seed images under an I/O-budgeted file object'),
    'C16': ('model_checking', '4/C16',
            'Every stream script up to length 3 (4) over 35 operations with every placement of up to 1 (2) interfering operations, on 6 file lengths, on opened / unwritten / edited / looked-up-removed-and-re-added images, in lock step with io.BytesIO; extraction with every block size.',
            'io.BytesIO is the reference model', 'exhaustive script enumeration with deviation-bounded interference against a reference stream'),
    'C17': ('model_checking', '4/C17',
            'Every file of every base image (incl. a directory that fills its first sector exactly) x every new length class x 2 contents (x a second modification): acceptance rule, byte differential of the backing file against ranges located by the independent decoders, full decode of the modified image.',
            'decoders locate records on the image before the modification', 'exhaustive input/sequence enumeration with a byte-differential and decoder oracle'),
    'C18': ('exploration', '4/C18',
            'Every string up to length 4 (5) over 23 characters x level x file/dir through the manglers, acceptance through the Rock Ridge facade, collision numbering of the genisoimage tool, and every history of at most 4 (5) steps over 12 facade / direct operations with one Rock Ridge facade object kept for the history.',
            'legality predicate of C13; small Rock-Ridge-path model for the facade histories', 'exhaustive string enumeration + exhaustive operation-sequence exploration of the facade'),
    'C19': ('exploration', '4/C19',
            'A stated grid of instants (year boundaries, leap days, every DST transition, hourly grids) x fixed-offset and tzdata zones x 4 timestamp classes: decoded fields + offset = instant; parse/record identity.',
            'grid, not every instant; zones whose offset is not a multiple of 15 minutes are skipped', 'exhaustive enumeration of a finite instant x zone grid'),
    'C20': ('exploration', '4/C20',
            'Source trees x the product of level / Rock Ridge form / Joliet / UDF / duplicate-scan options (+ boot, hide, exclude): both tools in-process, every requested view must extract to the source tree.',
            'tools run in-process; decoders for the extension/level clause', 'exhaustive enumeration of a finite tree x option product'),
})

PENDING = {}


def main():
    props = [json.loads(l)['id'] for l in open(os.path.join(HERE, 'properties.jsonl'))]
    try:
        commits = subprocess.run(['git', '-C', '/repo', 'log', '--format=%H %s', '1c3f835..HEAD'], stdout=subprocess.PIPE).stdout.decode().splitlines()
    except Exception:
        commits = []
    checks = []
    for pid in props:
        if pid not in CHECKS:
            continue
        cat, ref, text, note, tech = CHECKS[pid]
        checks.append({
            'property_id': pid,
            'quick_cmd': './check %s --tier quick' % pid,
            'thorough_cmd': './check %s --tier thorough' % pid,
            'evidence_file': 'evidence/%s.json' % pid,
            'replay_cmd_template': './check %s --replay {path}' % pid,
            'engine': 'mc',
            'level_claimed': {'category': cat, 'text': text, 'design_ref': 'DESIGN.md section ' + ref},
            'level_note': note,
            'technique': tech,
        })
    man = {
        'version': 1,
        'setup_cmd': './check --selftest',
        'hooks': {
            'guard': 'PYCDLIB_VERIF',
            'enable': 'no source hooks: checks import pycdlib from /repo and patch time/random/uuid from the harness process (mc/env.py)',
            'baseline_off_cmd': 'cd /repo && /venv/bin/python -m pytest -ra -q -p no:cacheprovider --timeout=900 --continue-on-collection-errors',
            'source_commits': [],
            'add_only': True,
        },
        'engines': [{'name': 'mc', 'path': 'mc/', 'serves_properties': sorted(CHECKS),
                     'kind_free_text': 'hand-written stateless explicit-state explorer (Python) driving the real pycdlib: '
                                       'operation-sequence (E1), deviation/schedule (E2) and fault/input (E3) enumerators, '
                                       'reference model and independent on-disc decoders'}],
        'checks': checks,
        'notes': 'fix: commits in /repo (genuine defects found by these checks): ' + '; '.join(c for c in commits if ' fix:' in c),
        'not_applicable': [{'property_id': p, 'reason': PENDING.get(p, 'check under construction in this round; not yet claimed')}
                           for p in props if p not in CHECKS],
    }
    with open(os.path.join(HERE, 'MANIFEST.json'), 'w') as f:
        json.dump(man, f, indent=1)
    print('MANIFEST.json: %d checks, %d not claimed' % (len(checks), len(man['not_applicable'])))


if __name__ == '__main__':
    main()
