#!/bin/bash
# usage: tools/verify_seed.sh <seed dir with patch.diff demo.py> <name>
# In a scratch worktree of /repo HEAD: demo passes without the patch, fails with it, and the baseline suite still passes with it.
d="$1"; name="$2"; wt=/tmp/sw_$name
git -C /repo worktree add -q --detach $wt HEAD || exit 2
trap "git -C /repo worktree remove --force $wt" EXIT
cd $wt
PYTHONPATH=$wt /venv/bin/python $d/demo.py > /tmp/sv_${name}_clean.log 2>&1; rc_clean=$?
if ! git apply --check $d/patch.diff 2>/dev/null; then echo "$name: PATCH-DOES-NOT-APPLY demo_clean=$rc_clean"; exit 0; fi
git apply $d/patch.diff
PYTHONPATH=$wt /venv/bin/python $d/demo.py > /tmp/sv_${name}_patched.log 2>&1; rc_patched=$?
out=$(/verif/tools/baseline_check.py $wt 2>&1 | tail -3 | tr '\n' ' ')
echo "$name: demo_clean=$rc_clean demo_patched=$rc_patched baseline: $out"
