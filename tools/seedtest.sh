#!/bin/bash
# usage: tools/seedtest.sh <patch.diff> <tier> <check> [<check>...]
# applies the seeded change to /repo, runs the checks, and always reverts.
patch="$1"; tier="$2"; shift 2
cd /repo || exit 2
if ! git diff --quiet; then echo "repo not clean"; exit 2; fi
if ! git apply --check "$patch" 2>/dev/null; then echo "PATCH DOES NOT APPLY: $patch"; exit 3; fi
git apply "$patch"
trap 'git -C /repo checkout -- . ' EXIT
cd /verif
for c in "$@"; do
  out=$(VERIF_NO_EVIDENCE=1 ./check "$c" --tier "$tier" 2>&1)
  rc=$?
  echo "== $c rc=$rc $(echo "$out" | grep -c '^VIOLATION') violation line(s)"
  echo "$out" | grep -A3 '^VIOLATION' | head -12
done
