#!/bin/bash
# usage: tools/seedtest.sh <patch.diff> <tier> <check> [<check>...]
# Runs the checks against a scratch worktree of /repo HEAD with the seeded change applied
# (PYCDLIB_VERIF_REPO points the harness at it); /repo itself is not touched.  No evidence is written.
patch="$1"; tier="$2"; shift 2
wt=/tmp/st_$$
git -C /repo worktree add -q --detach $wt HEAD || exit 2
trap "git -C /repo worktree remove --force $wt" EXIT
if ! git -C $wt apply --check "$patch" 2>/dev/null; then echo "PATCH DOES NOT APPLY: $patch"; exit 3; fi
git -C $wt apply "$patch"
cd /verif
for c in "$@"; do
  out=$(PYCDLIB_VERIF_REPO=$wt VERIF_NO_EVIDENCE=1 VERIF_REPLAY_DIR=${VERIF_REPLAY_DIR:-/tmp/seedreplays} ./check "$c" --tier "$tier" 2>&1)
  rc=$?
  echo "== $c rc=$rc $(echo "$out" | grep -c '^VIOLATION') violation line(s)"
  echo "$out" | grep -A3 '^VIOLATION' | head -12
done
