#!/venv/bin/python
"""Regenerate the fix table and the seed table of DESIGN.md (between their markers) from known_findings.json, git log of /repo and seeded/MATRIX.json."""
import json, os, re, subprocess
HERE = os.path.dirname(os.path.dirname(os.path.abspath(__file__)))
k = json.load(open(os.path.join(HERE, 'known_findings.json')))
log = subprocess.run(['git', '-C', '/repo', 'log', '--reverse', '--format=%h\t%s', '1c3f835..HEAD'], stdout=subprocess.PIPE).stdout.decode().strip().splitlines()
subj = dict(l.split('\t') for l in log)
rows = ["| commit | property | subject | what failed (first report) |", "|---|---|---|---|"]
for f in k['fixed']:
    prop, h, what = re.match(r'fixed: property=(C\d\d) (\w+) (.*)', f).groups()
    rows.append("| %s | %s | %s | %s |" % (h, prop, subj[h].replace('fix: ', '').replace('|', '\\|'), what.replace('|', '\\|')))
fixlist = '\n'.join(rows)
m = json.load(open(os.path.join(HERE, 'seeded', 'MATRIX.json')))
rows = ["| seed | property | needs, in order to manifest | reported by (quick tier, current tree + patch) |", "|---|---|---|---|"]
for sid, v in sorted(m.items()):
    rep = ', '.join(c for c, r in v['checks'].items() if r == 'VIOLATION reported')
    nor = ', '.join(c for c, r in v['checks'].items() if r != 'VIOLATION reported')
    rows.append("| %s | %s | %s | %s%s |" % (sid, v['property'], v['needs'].replace('|', '\\|'), rep or '-', (' (not: %s)' % nor if nor else '')))
seedtable = '\n'.join(rows)
p = os.path.join(HERE, 'DESIGN.md')
s = open(p).read()
for tag, body in (('FIXLIST', fixlist), ('SEEDTABLE', seedtable)):
    b, e = '<!-- %s:BEGIN -->' % tag, '<!-- %s:END -->' % tag
    assert b in s and e in s, tag
    s = s[:s.index(b) + len(b)] + '\n' + body + '\n' + s[s.index(e):]
open(p, 'w').write(s)
print('%d fixes, %d seeds' % (len(k['fixed']), len(m)))
