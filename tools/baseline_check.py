#!/venv/bin/python
"""
Run the repository's baseline test suite (guard off) and compare with
/root/.vp/BASELINE.json: every test of stable_pass must still pass.
usage: baseline_check.py [repo_dir]
"""
import ast
import json
import os
import subprocess
import sys
import tempfile
import xml.etree.ElementTree as ET

repo = sys.argv[1] if len(sys.argv) > 1 else '/repo'
base = json.load(open('/root/.vp/BASELINE.json'))
stable = base['stable_pass']
if isinstance(stable, str):
    stable = ast.literal_eval(stable)
stable = set(stable)
fd, xml = tempfile.mkstemp(suffix='.xml', dir='/var/tmp')
os.close(fd)
env = dict(os.environ)
env.pop('PYCDLIB_VERIF', None)
env['TZ'] = env.get('BASE_TZ', 'UTC')
env['PYTHONPATH'] = repo
p = subprocess.run(['/venv/bin/python', '-m', 'pytest', '-q', '-p', 'no:cacheprovider', '--timeout=900',
                    '--continue-on-collection-errors', '-x' if False else '-q', '--junitxml=' + xml],
                   cwd=repo, env=env, stdout=subprocess.PIPE, stderr=subprocess.STDOUT)
tree = ET.parse(xml)
os.unlink(xml)
passed = set()
for tc in tree.iter('testcase'):
    name = '%s::%s' % (tc.get('classname'), tc.get('name'))
    if not any(ch.tag in ('failure', 'error', 'skipped') for ch in tc):
        passed.add(name)
missing = sorted(stable - passed)
print('baseline stable=%d passed_now=%d stable_missing=%d' % (len(stable), len(passed), len(missing)))
for m in missing[:40]:
    print('  MISSING', m)
sys.exit(1 if missing else 0)
