#!/venv/bin/python
"""Regenerate the 'fixed:' list of known_findings.json from the fix: commits in /repo (the findings list is kept as is)."""
import json, os, subprocess
HERE = os.path.dirname(os.path.dirname(os.path.abspath(__file__)))
PROPS = {
 'allocate a new Rock Ridge continuation block': ('C01', 'write_fp raised PyCdlibInternalError (swab of -1) once more than one continuation block of Rock Ridge names was needed (GROW_CE macro step, 16 names of 240 bytes)'),
 'infer the Rock Ridge version only after': ('C01', 'Rock Ridge 1.12 image with a name >= 200 bytes could not be reopened: Inconsistent Rock Ridge versions'),
 'boot catalog readable through its UDF path': ('C11', 'get_file_from_iso_fp(udf_path=/boot.cat) raised "Cannot write out an entry without data"'),
 'last UDF anchor in the last sector': ('C10', 'RR+UDF image after add/rm of a long-named file: anchor not in the last sector, reopen failed "Expected at least 2 UDF Anchors"'),
 'short read when probing a boot file': ('C15', 'struct.error escaped open_fp for an image whose boot file is shorter than 24 bytes at the end of the image / empty'),
 'refuse an empty file as El Torito boot file': ('C01', 'add_fp(A empty); add_eltorito(A); add_fp(B joliet-only): B read back empty after reopen (boot entry pointed at B)'),
 'do not share one inode between all zero-length files': ('C07', 'after reopen rm_file of one empty file removed every empty file and symlink; C05: UDF image with two empty files was not a fixpoint'),
 'length of a hidden El Torito boot file': ('C01', 'add_fp; add_eltorito; rm_hard_link(iso): Joliet/UDF name read 2048 bytes instead of 1 after reopen'),
 'rm_eltorito forgets the boot info table': ('C05', 'add_eltorito(boot_info_table); rm_eltorito: generation 2 differed from generation 1 (file still patched)'),
 'boot record at extent 17 when there are duplicate PVDs': ('C06', 'add_eltorito + duplicate_pvd: written image refused by open ("El Torito Boot Record must be at extent 17")'),
 'add_isohybrid marks the extent assignment as stale': ('C06', 'always_consistent=True (or force_consistency before add_isohybrid): MBR boot file address 0'),
 "new '..' record carries the current length": ('C03', 'GROW_PT (20 directories): ".." of a late directory records length 2048 while the root is 4096 (also Joliet: C09)'),
 'UDF parent File Identifier Descriptor points at': ('C10', 'nested UDF directory /d1/d2: parent entry pointed at the root File Entry'),
 'root directory length of the enhanced volume descriptor': ('C03', 'level 4 + 13 root directories: enhanced VD root record length 2048, path table lists more directories than reachable'),
 "update 'logical blocks recorded' when a UDF directory shrinks": ('C10', 'GROW_FID then rm_file: root File Entry says 2 blocks recorded, extent has 1'),
 'do not track the root ER continuation entry': ('C02', 'REOPEN; add_fp with a 251-byte Rock Ridge name: write_fp raised "Assigned an extent beyond the ISO"'),
 'zero-length UDF names that share a File Entry': ('C07', 'add_fp(empty); add_hard_link(udf); REOPEN: File Entry sector written twice'),
 'rm_eltorito releases a hidden boot file': ('C07', 'add_fp(iso); add_eltorito; rm_hard_link; rm_eltorito: write_fp raised AttributeError (orphaned inode)'),
 'rm_eltorito skips boot catalog names that were already removed': ('C07', 'add_eltorito; add_hard_link L; rm_hard_link(/BOOT.CAT;1); rm_eltorito removed the unrelated entry L'),
 'PyCdlibIO positions the shared backing file': ('C16', 'readinto did not advance; any interleaved read on the image corrupted an open stream'),
 'modify_file_in_place works for files referenced by El Torito': ('C17', 'modify_file_in_place of a boot file raised "Invalid record type" after partially rewriting the image'),
 'parse non-bootable El Torito section entries': ('C11', 'add_eltorito(section, bootable=False): written image refused by open'),
 'record the UDF timestamp offset in minutes': ('C19', 'every UDF timestamp in a zone other than UTC decoded to the wrong instant'),
 'hybrid GPT/APM partitions describe the EFI and Mac images': ('C12', 'EFI+Mac images of different sizes: GPT partition 1 too long; backup GPT partition 3 and APM entries never set'),
 'backup GPT carries the same disk and partition GUIDs': ('C12', 'primary and backup GPT had different disk/partition GUIDs and array CRCs'),
 'add_isohybrid refuses partition entries it cannot honour': ('C12', 'add_isohybrid(efi=True, part_entry=2): MBR without active partition'),
 'hybrid padding leaves room for the backup GPT': ('C12', 'EFI hybrid with small geometry: backup GPT overwrote the end of the volume; >1024 cylinders: partition did not cover the image'),
 'read the hybrid geometry from the end C/H/S field': ('C05', 'hybrid with part_offset != 0 or > 256 cylinders was not a fixpoint'),
 'name mangling for ISO9660 identifiers is total': ('C18', "mangle of '1111.11ß' at level 1 gave 9 characters; ';' and 0x01 names at level 4 refused by the library"),
 'numbers colliding names from the file name': ('C18', "build_iso_path(['AB.txt','ab.TXT']) produced 'AB.TX000.TXT;1'"),
 'duplicate identifier is only merged as a multi-extent file': ('C13', 'add_directory(/X); add_fp(/X) accepted and merged as a multi-extent record'),
 'identifier checks refuse malformed versions': ('C13', "add_fp('/; ') raised ValueError; '1;' and 0x01 accepted"),
 'identifiers that do not fit their on-disc field': ('C13', 'identifier of 222+ bytes / UDF name of 255+ bytes accepted, struct.error at write_fp'),
 'UDF directories refuse a second entry': ('C13', 'add_directory(udf /X) twice accepted'),
 'rm_directory refuses to remove a file in the Joliet and UDF': ('C13', 'rm_directory(udf_path=<file>) accepted; rm_directory(joliet_path=<file>) raised InternalError after mutation'),
 'opening a damaged image raises PyCdlibInvalidISO': ('C15', 'struct.error / IndexError / KeyError / ValueError / OverflowError escaped open_fp; a zeroed identifier length of "." looped forever'),
 'honours -R for symlinks': ('C20', 'symlinks tree with -R: symlinks missing from the Rock Ridge view; -rrip112 alone: tool failed'),
 'pycdlib-extract-files extracts UDF symbolic links': ('C20', 'symlinks tree with -udf: extract-files raised AttributeError'),
 'add_symlink adds the Joliet placeholder': ('C20', 'symlinks tree with -J -udf (no Rock Ridge): duplicate Joliet entry'),
 'multi-namespace adds validate every namespace': ('C14', 'add_fp/add_directory/add_symlink refused in the 2nd/3rd namespace left the first modified'),
 'a refused add_eltorito leaves the object untouched': ('C14', 'add_eltorito refused (bad media, bad catalog path, hdemul without MBR) left boot record / boot info table behind'),
 'rm_directory checks every namespace': ('C14', 'rm_directory(iso ok, joliet/udf bad) removed the ISO9660 directory before refusing'),
 'modify_file_in_place refuses files that are not stored': ('C14', 'modify_file_in_place on a new() image raised AttributeError after updating sizes'),
 'needs more than one continuation block is refused': ('C08', 'symlink target of 2240 bytes (9 components of 248) accepted, write_fp raised PyCdlibInternalError (swab)'),
 'duplicate PVD copies the number of path table extents': ('C14', 'duplicate_pvd; rm_directory refused with "Extent number should never grow when removing PTR" (legal edit refused; seen as unexpected refusals in C01)'),
 'too long for a Rock Ridge record is refused with': ('C13', '190+ character ISO9660 identifier on a Rock Ridge image raised PyCdlibInternalError instead of PyCdlibInvalidInput (growth chains were cut at their first step)'),
 'over-long UDF symlink component': ('C10', 'UDF symlink target component of 255 characters raised ValueError'),
 'third and later sections of a very large file': ('C01', 'file of 2*0xfffff800+5 bytes (three sections): third section chained before the second, file read back 5 bytes short, directory held the name twice (mc/bigfile.py iso-2lim+5)'),
 'add_hard_link() links every section of a multi-extent file': ('C01', 'add_fp(0xfffff800+1 bytes); add_hard_link(joliet): the Joliet name read back 0xfffff800 bytes (mc/bigfile.py link)'),
 'honours platform_id for additional sections': ('C11', 'add_eltorito(A); add_eltorito(A, platform_id=1): section header platform 0 (thorough sigma11)'),
 'only a UDF name is stored as one piece': ('C01', 'add_fp(4 GiB + 2049 bytes, udf_path only): write_fp raised AttributeError (Inode has no orig_extent_loc) (mc/bigfile.py udf-only-4g)'),
 'add_symlink encodes the UDF target before': ('C14', 'add_symlink(iso+rr+joliet+udf, udf_target with a 255-character component) refused after the namespaces were modified: next image differs (udf tag 261)'),
 'removed entry leaves the Rock Ridge lookup list': ('C07', 'add_fp(A); rm_file(A): get_record(rr_path=/a) on the editing object still returns the removed record (oracle_live, removed names must not resolve)'),
 'sorts after every entry is refused, not an IndexError': ('C07', 'get_record(rr_path=/b) with only /a present raised IndexError in _find_rr_record'),
 'hybrid MBR points at the boot file of the El Torito Initial Entry': ('C12', 'add_eltorito(A boot); add_eltorito(Z second x86 entry); add_isohybrid: MBR boot-file address = 4 x sector of Z (modes bios2 / efibios2)'),
 'placeholder of a relocated directory gets its continuation area tracked': ('C08', 'depth-8 directory with a 190-character Rock Ridge name: placeholder record CE points at block 0 (deep chain x name length sweep)'),
 'parse the continuation area before a directory record is classified': ('C01', 'depth-8 directory with a 190-character Rock Ridge name: after reopen the directory is listed as a file and cannot be looked up (reported by the C08 sweep through the roundtrip oracle)'),
 'decodes every UDF component with its own encoding': ('C20', 'tree unicode-nested with -udf: pycdlib-extract-files wrote to a garbled directory name (FileNotFoundError)'),
 'finds a boot image given with a directory': ('C20', 'tree boot-sub with -b isolinux/isolinux.bin: pycdlib-genisoimage raised PyCdlibInvalidInput (Must be a path starting with /)'),
 'keeps directories deeper than 7 at -iso-level 4': ('C20', 'tree deep with -iso-level 4 (-J / -udf): directories below depth 7 and the leaf file missing from every view'),
 'cannot get the same Rock Ridge name': ('C13', 'add_directory(/DOCS, rr_name=archive); add_directory(/ARCHIVE, rr_name=archive) accepted (first seen by the C18 facade histories: facade add_directory(/archive) next to a directory already named archive)'),
 'rm_eltorito also removes the isohybrid MBR': ('C06', 'add_fp; add_eltorito; add_isohybrid; rm_eltorito: always-consistent image has MBR boot-file address 0x84, lazy image 0 (thorough, D = 4)'),
 'modified in place can be modified in place again': ('C17', 'modify_file_in_place(/A.;1, 2049 bytes) twice: the second call refused (regression of 7b22e6a, found by the thorough tier, depth 2)'),
 "only the boot catalog's own records read as the boot catalog": ('C07', 'add_fp A; add_eltorito; add_hard_link(boot catalog -> /L.;1); rm_hard_link(/L.;1); add_hard_link(A -> /L.;1): the editing object reads 2048 bytes of boot catalog for /L.;1 (thorough sigma7, D = 5, oracle_live)'),
 'many short components gets its continuation area': ('C08', "add_symlink with rr_path 'c/c/.../c' (32 components): SL record flagged CONTINUE with nothing following, target read back with 31 components (thorough target-shape sweep, k components of length m)"),
 "that reads '.' or '..' is recorded as a name": ('C08', "level 4, 150-character identifier, XA, Rock Ridge 1.12, add_symlink rr_path '../.a/.a/.a': read back as '../.a/.a/./a' (thorough: every arrangement of special components x long identifiers)"),
 'refused add_isohybrid leaves no half-made MBR': ('C14', 'add_fp(boot); add_eltorito(load size 4); add_isohybrid(geometry_heads=1000) refused: next write_fp raised PyCdlibInternalError (IsoHybrid not initialized)'),
 'resolve a relocated Rock Ridge directory through its link': ('C01', 'two depth-8 directories with the same Rock Ridge name in different parents: the second is missing from the Rock Ridge view (reloc-collide chain)'),
}
log = subprocess.run(['git', '-C', '/repo', 'log', '--reverse', '--format=%h\t%s', '1c3f835..HEAD'], stdout=subprocess.PIPE).stdout.decode().strip().splitlines()
fixed = []
for line in log:
    h, subj = line.split('\t')
    hit = [(k, v) for k, v in PROPS.items() if k in subj]
    assert len(hit) == 1, (subj, hit)
    fixed.append('fixed: property=%s %s %s' % (hit[0][1][0], h, hit[0][1][1]))
p = os.path.join(HERE, 'known_findings.json')
d = json.load(open(p))
d['fixed'] = fixed
json.dump(d, open(p, 'w'), indent=1)
print(len(fixed), 'fixed entries;', len(d['findings']), 'findings')
